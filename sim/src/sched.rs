//! Engine N: the baton scheduler.
//!
//! Simulated clients are real OS threads, but exactly one of them runs at any
//! instant: a thread runs only while it holds the baton and hands it back at
//! every scheduling point. Who gets the baton next is decided by a seeded
//! policy (or by a recorded schedule on replay); nothing else in a run is
//! nondeterministic, so one seed is one exactly repeatable execution.
//!
//! Scheduling points come from two kinds of seams:
//!  * the cfg(exmex_verif) hook sites inside exmex (ids 0..=13), and
//!  * user-code seams that the library already offers: operator function
//!    pointers and the data type's Clone/Default/FromStr/Debug/PartialEq
//!    impls (ids 33..=39), plus the harness' own operation boundary (32).
//!
//! Panic faults are injected only at user-code seams, because that is the
//! only place where a real deployment can unwind out of exmex.

use crate::prng::{Fnv, Rng};
use serde::{Deserialize, Serialize};
use std::cell::RefCell;
use std::sync::{Arc, Condvar, Mutex, MutexGuard};
use std::time::{Duration, Instant};

pub const SITE_OP_BOUNDARY: u8 = 32;
pub const SEAM_OP: u8 = 33;
pub const SEAM_CLONE: u8 = 34;
pub const SEAM_DEFAULT: u8 = 35;
pub const SEAM_FROMSTR: u8 = 36;
pub const SEAM_DEBUG: u8 = 37;
pub const SEAM_EQ: u8 = 38;
pub const SEAM_SUBS: u8 = 39;
/// the global allocator (any allocation made by a simulated thread, inside exmex, its dependencies or std)
pub const SEAM_ALLOC: u8 = 40;
/// Drop of a value of the seam data type
pub const SEAM_DROP: u8 = 41;
/// a basic-block edge of instrumented code (SanitizerCoverage trace-pc-guard; `sim_bb` build only)
pub const SEAM_BB: u8 = 42;
/// a load or store (also relaxed/acquire/release atomic ones) of instrumented code (`sim_bb` build only)
pub const SEAM_MEM: u8 = 43;
/// a basic block that is executed for the first time in this process, or one of the few
/// callbacks after it (`sim_bb` build, runs with the first-execution mode on); see `bb_point`
pub const SEAM_NOVEL: u8 = 44;
pub const N_SITE_IDS: usize = 48;

/// The `bb_gap` parameter of a run carries two things: bits 0-15 the mean gap between two
/// basic-block/load-store points, bits 16-23 the first-execution mode (0 = off, k = a thread that
/// executes a basic block nobody executed before in this process is stalled with probability 1/k).
pub fn bb_gap_of(x: u32) -> u32 {
    x & 0xFFFF
}
pub fn bb_novel_of(x: u32) -> u32 {
    (x >> 16) & 0xFF
}
pub fn bb_pack(gap: u32, novel_k: u32) -> u32 {
    (gap & 0xFFFF) | ((novel_k & 0xFF) << 16)
}

pub fn site_name(s: u8) -> &'static str {
    match s {
        0 => "TokenStep",
        1 => "RegexUse",
        2 => "FlatBuildStep",
        3 => "DeepBuildStep",
        4 => "FlatFoldStep",
        5 => "DeepFoldStep",
        6 => "FlatLoadNode",
        7 => "EvalStep",
        8 => "DeepLoadNode",
        9 => "ToDeepStep",
        10 => "FlattenNode",
        11 => "SubsNode",
        12 => "PartialStep",
        13 => "UnparseNode",
        32 => "OpBoundary",
        33 => "SeamOperatorApply",
        34 => "SeamClone",
        35 => "SeamDefault",
        36 => "SeamFromStr",
        37 => "SeamDebug",
        38 => "SeamPartialEq",
        39 => "SeamSubsCallback",
        40 => "SeamAllocator",
        41 => "SeamDrop",
        42 => "SeamBasicBlock",
        43 => "SeamLoadStore",
        44 => "SeamFirstExecution",
        _ => "?",
    }
}

pub fn is_user_seam(s: u8) -> bool {
    (SEAM_OP..=SEAM_SUBS).contains(&s)
}

/// op tag bits (set by the worker at each operation boundary, used for reach probes)
pub const TAG_SHARED_EVAL: u8 = 1;
pub const TAG_BIG: u8 = 2;
pub const TAG_PARSE: u8 = 4;
pub const TAG_ERRTEXT: u8 = 8;

#[derive(Clone, Copy, Debug, Serialize, Deserialize, PartialEq, Eq)]
pub enum PolicyKind {
    Random,
    Sticky,
    Pct,
    BoundedPreempt,
    RoundRobin,
    /// at every scheduling point the running thread is stalled with probability 1/q for the next
    /// S steps of the others (q, S drawn per run): frequent attempts, long stalls - what a defect
    /// needs that lives in a window of a few instructions and requires others to do real work meanwhile
    Stall,
}

pub const ALL_POLICIES: [PolicyKind; 7] = [
    PolicyKind::Random,
    PolicyKind::Sticky,
    PolicyKind::Pct,
    PolicyKind::BoundedPreempt,
    PolicyKind::RoundRobin,
    PolicyKind::Stall,
    PolicyKind::Stall,
];

/// A panic fault: unwind at the `nth` (1-based) user-code seam reached by
/// thread `tid` while it executes its operation number `op`. This addressing
/// is independent of the interleaving (each thread's own sequence of seams
/// within one operation is deterministic), so it survives minimisation.
#[derive(Clone, Copy, Debug, Serialize, Deserialize, PartialEq, Eq)]
pub struct FaultSpec {
    pub tid: usize,
    pub op: u32,
    pub nth: u32,
}

#[derive(Clone, Debug, Serialize, Deserialize)]
pub enum Source {
    Policy { kind: PolicyKind, seed: u64 },
    /// follow the recorded decisions exactly; any mismatch sets `diverged`
    Strict(Vec<u8>),
    /// follow the recorded decisions where possible, otherwise keep the
    /// current thread running (lowest tid if it is gone); never draws randomness
    Lenient(Vec<u8>),
}

/// payload of an injected panic
pub struct Injected {
    pub site: u8,
}

#[derive(Clone, Copy, PartialEq, Eq, Debug)]
enum St {
    Ready,
    Finished,
    ExtBlocked,
}

struct PolicyState {
    kind: PolicyKind,
    rng: Rng,
    prio: Vec<u32>,
    change_points: Vec<u64>,
    quantum: u64,
    since_switch: u64,
    low_prio: u32,
    stall_len: u64,
    stalled_until: Vec<u64>,
    /// first-execution mode: stall probability 1/novel_k at a SEAM_NOVEL point (0 = off)
    novel_k: u32,
    novel_stall: u64,
    novel_stalls: u64,
}

impl PolicyState {
    fn new(kind: PolicyKind, seed: u64, n: usize) -> Self {
        let mut rng = Rng::new(seed);
        let mut prio: Vec<u32> = (0..n as u32).map(|i| 1000 + i).collect();
        // Fisher-Yates
        for i in (1..n).rev() {
            let j = rng.below(i + 1);
            prio.swap(i, j);
        }
        // runs range from a few hundred steps (hook seams) to ~100,000 (basic-block seams)
        let horizon = [40u64, 200, 1000, 4000, 16_000, 64_000][rng.below(6)];
        let n_cp = match kind {
            PolicyKind::Pct => rng.range(1, 3),
            PolicyKind::BoundedPreempt => rng.range(0, 3),
            _ => 0,
        };
        let mut change_points: Vec<u64> =
            (0..n_cp).map(|_| 1 + rng.next_u64() % horizon).collect();
        change_points.sort_unstable();
        let quantum = match kind {
            PolicyKind::RoundRobin => [1u64, 2, 3, 5, 8, 13, 40][rng.below(7)],
            // long quanta = long stalls of everybody else, starting at a uniformly random point
            PolicyKind::Sticky => [2u64, 4, 8, 16, 64, 256, 1024][rng.below(7)],
            PolicyKind::Stall => [2u64, 3, 6, 16, 64][rng.below(5)],
            _ => 1,
        };
        let stall_len = [8u64, 32, 128, 512, 2048, 8192][rng.below(6)];
        PolicyState {
            kind,
            rng,
            prio,
            change_points,
            quantum,
            since_switch: 0,
            low_prio: 999,
            stall_len,
            stalled_until: vec![0; n],
            novel_k: 0,
            // not drawn from `rng`: the streams of runs without the mode stay what they were
            novel_stall: [16u64, 64, 256, 1024, 4096][((seed >> 7) % 5) as usize],
            novel_stalls: 0,
        }
    }

    fn decide(&mut self, eligible: &[usize], cur: Option<usize>, step: u64, novel: bool) -> usize {
        debug_assert!(!eligible.is_empty());
        let cur_ok = cur.filter(|c| eligible.contains(c));
        if novel && self.novel_k != 0 {
            // the running thread is in code that never ran before in this process (a first use, a
            // threshold that was just crossed, a resize, an eviction): let it sit there while the
            // others get on - under every policy
            if let Some(c) = cur_ok {
                let other_awake = eligible.iter().any(|t| *t != c && self.stalled_until[*t] <= step);
                if other_awake && self.rng.chance(1, self.novel_k) {
                    self.stalled_until[c] = step + self.novel_stall;
                    self.novel_stalls += 1;
                }
            }
        }
        let mut next = match self.kind {
            PolicyKind::Random => *self.rng.pick(eligible),
            PolicyKind::Sticky => match cur_ok {
                Some(c) if !self.rng.chance(1, self.quantum as u32) => c,
                _ => *self.rng.pick(eligible),
            },
            PolicyKind::Pct => {
                if let Some(c) = cur_ok {
                    if self.change_points.binary_search(&step).is_ok() {
                        self.prio[c] = self.low_prio;
                        self.low_prio = self.low_prio.saturating_sub(1);
                    }
                }
                *eligible.iter().max_by_key(|t| self.prio[**t]).unwrap()
            }
            PolicyKind::BoundedPreempt => match cur_ok {
                Some(c) => {
                    if self.change_points.binary_search(&step).is_ok() && eligible.len() > 1 {
                        let others: Vec<usize> =
                            eligible.iter().copied().filter(|t| *t != c).collect();
                        *self.rng.pick(&others)
                    } else {
                        c
                    }
                }
                None => *self.rng.pick(eligible),
            },
            PolicyKind::Stall => {
                if let Some(c) = cur_ok {
                    // never stall the last thread that is awake: stalls must not cancel each other
                    let other_awake = eligible.iter().any(|t| *t != c && self.stalled_until[*t] <= step);
                    if other_awake && self.rng.chance(1, self.quantum as u32) {
                        self.stalled_until[c] = step + self.stall_len;
                    }
                }
                let awake: Vec<usize> = eligible.iter().copied().filter(|t| self.stalled_until[*t] <= step).collect();
                match cur_ok {
                    Some(c) if awake.contains(&c) => c,
                    _ if !awake.is_empty() => *self.rng.pick(&awake),
                    // everybody is stalled: wake the one whose stall ends first
                    _ => *eligible.iter().min_by_key(|t| self.stalled_until[**t]).unwrap(),
                }
            }
            PolicyKind::RoundRobin => match cur_ok {
                Some(c) if self.since_switch + 1 < self.quantum => c,
                Some(c) => *eligible.iter().find(|t| **t > c).unwrap_or(&eligible[0]),
                None => match cur {
                    Some(c) => *eligible.iter().find(|t| **t > c).unwrap_or(&eligible[0]),
                    None => eligible[0],
                },
            },
        };
        if self.novel_k != 0 && self.kind != PolicyKind::Stall && self.stalled_until[next] > step {
            let awake: Vec<usize> = eligible.iter().copied().filter(|t| self.stalled_until[*t] <= step).collect();
            if !awake.is_empty() {
                next = *self.rng.pick(&awake);
            }
        }
        if Some(next) == cur {
            self.since_switch += 1;
        } else {
            self.since_switch = 0;
        }
        next
    }
}

enum Decider {
    Policy(PolicyState),
    Strict(Vec<u8>, usize),
    Lenient(Vec<u8>, usize),
}

#[derive(Clone, Debug, Default, Serialize, Deserialize)]
pub struct SimReport {
    pub steps: u64,
    pub decisions: u64,
    pub switches_inner: u64,
    pub switches_boundary: u64,
    pub site_hits: Vec<u64>,
    pub switch_at: Vec<u64>,
    /// inner switches while the preempted thread was inside an eval on a shared expression
    pub sw_in_shared_eval: u64,
    /// ... inside an operation on a > 64 operand expression, at EvalStep
    pub sw_in_big_evalstep: u64,
    /// ... between loading nodes and reducing (FlatLoadNode / DeepLoadNode)
    pub sw_at_load: u64,
    /// ... at a regex use inside a parse
    pub sw_at_regex: u64,
    /// ... while formatting (SeamDebug) inside a parse of a damaged text (error path)
    pub sw_in_errpath: u64,
    pub faults_fired: Vec<(FaultSpec, u8)>,
    pub ext_block_events: u64,
    /// stalls of a thread at a first-execution point (SEAM_NOVEL)
    #[serde(default)]
    pub novel_stalls: u64,
    pub diverged: bool,
    pub step_capped: bool,
    pub trace_digest: u64,
    pub schedule: Vec<u8>,
    pub hung: bool,
}

struct Inner {
    /// Linux thread ids of the simulated threads (0 = not attached yet), for the watchdog
    os_tid: Vec<i64>,
    status: Vec<St>,
    current: Option<usize>,
    step: u64,
    max_steps: u64,
    decider: Decider,
    schedule: Vec<u8>,
    digest: Fnv,
    op_index: Vec<u32>,
    op_tag: Vec<u8>,
    seam_count: Vec<u32>,
    faults: Vec<FaultSpec>,
    fired: Vec<Option<u8>>,
    rep: SimReport,
    all_done: bool,
}

pub struct Sim {
    /// 0: allocations are no scheduling points in this run; k: every k-th allocation of a thread is one
    alloc_every: u32,
    /// 0: no basic-block / load-store points; else the mean gap between two of them
    bb_gap: u32,
    bb_seed: u64,
    inner: Mutex<Inner>,
    cvs: Vec<Condvar>,
    done_cv: Condvar,
}

thread_local! {
    static CUR: RefCell<Option<(Arc<Sim>, usize)>> = const { RefCell::new(None) };
    static SUSPENDED: std::cell::Cell<bool> = const { std::cell::Cell::new(false) };
    static ALLOC_EVERY: std::cell::Cell<u32> = const { std::cell::Cell::new(0) };
    static ALLOC_CTR: std::cell::Cell<u32> = const { std::cell::Cell::new(0) };
    static IN_POINT: std::cell::Cell<bool> = const { std::cell::Cell::new(false) };
}

// ---------------------------------------------------------------------------------------------
// basic-block / load-store seam (sim_bb build)
// ---------------------------------------------------------------------------------------------
//
// The SanitizerCoverage callbacks run at every basic-block edge and before every load and store of
// instrumented code - including std's generic code instantiated in this crate. Nothing they call
// may itself be instrumented and non-inlined, otherwise the callee's entry block calls the callback
// again, for ever (`LocalKey::with` is such a function when the optimiser decides not to inline
// it). So the per-thread state lives behind a pthread key: `pthread_getspecific` is libc,
// not instrumented, and everything else on the fast path is plain field access.

#[repr(C)]
pub struct BbTls {
    /// mean gap between two basic-block/load-store points; 0 = off
    gap: u32,
    countdown: u32,
    rng: u64,
    /// the thread is inside the scheduler (mirror of IN_POINT)
    in_point: u32,
    in_log: u32,
    log_on: u32,
    /// first-execution mode on (see SEAM_NOVEL)
    novel_on: u32,
    /// callbacks left in the dense stretch behind a first execution
    dense: u32,
    pub log: Vec<u64>,
}

/// true while the main thread warms the process up / ages it: basic blocks executed then count as
/// executed before (they are not first executions inside the run)
pub static BB_MARK_ALL: std::sync::atomic::AtomicBool = std::sync::atomic::AtomicBool::new(false);

static mut BB_KEY: u32 = u32::MAX;

extern "C" {
    fn pthread_key_create(key: *mut u32, dtor: Option<extern "C" fn(*mut u8)>) -> i32;
    fn pthread_getspecific(key: u32) -> *mut u8;
    fn pthread_setspecific(key: u32, v: *const u8) -> i32;
}

/// once per process, before any thread is attached
pub fn bb_init() {
    unsafe {
        let mut k: u32 = 0;
        if pthread_key_create(&mut k, None) == 0 {
            std::ptr::write_volatile(&raw mut BB_KEY, k);
        }
    }
}

#[inline(always)]
fn bb_tls() -> *mut BbTls {
    unsafe {
        let k = std::ptr::read_volatile(&raw const BB_KEY);
        if k == u32::MAX {
            std::ptr::null_mut()
        } else {
            pthread_getspecific(k) as *mut BbTls
        }
    }
}

fn bb_attach(gap: u32, seed: u64, tid: usize, log_on: bool) {
    let novel_on = (bb_novel_of(gap) != 0) as u32;
    let gap = bb_gap_of(gap);
    if gap == 0 {
        return;
    }
    let t = Box::new(BbTls {
        novel_on,
        dense: 0,
        gap,
        countdown: 1 + (tid as u32 * 7) % 13,
        rng: (seed ^ 0x9E37_79B9_7F4A_7C15u64.wrapping_mul(tid as u64 + 1)) | 1,
        in_point: 1,
        in_log: 0,
        log_on: log_on as u32,
        log: Vec::new(),
    });
    unsafe {
        let k = std::ptr::read_volatile(&raw const BB_KEY);
        if k != u32::MAX {
            pthread_setspecific(k, Box::into_raw(t) as *const u8);
        }
    }
}

/// switches the seam off for this thread and hands back the callback log (debugging aid)
fn bb_detach() -> Vec<u64> {
    let t = bb_tls();
    if t.is_null() {
        return Vec::new();
    }
    unsafe {
        (*t).gap = 0;
        std::mem::take(&mut (*t).log)
    }
}

#[inline(always)]
fn bb_set_in_point(v: u32) {
    let t = bb_tls();
    if !t.is_null() {
        unsafe { (*t).in_point = v };
    }
}

/// Called from the SanitizerCoverage callbacks. `ra` is the callback's return address (only used
/// by the debugging log). When the thread's countdown expires the next gap is drawn from the
/// thread's own deterministic generator (seeded from the run seed and the thread id, so the
/// sequence of points is a function of the code path only) and an ordinary scheduling point is
/// taken. Gaps are a mixture: mostly around the configured mean, sometimes 1-3 callbacks, so that
/// windows of a few instructions are split as well.
///
/// First-execution mode: `guard` is the basic block's guard word (null for loads and stores). It
/// is non-zero until the block has been executed once in this process by the warm-up or by a
/// simulated thread. Rarely executed code is where state changes shape (first use, threshold
/// crossed, resize, eviction, tier-up), so a first execution is always a scheduling point (site
/// SEAM_NOVEL, at which the scheduler may stall the thread for long), and so is every fourth of the
/// 16 callbacks behind it. Only simulated threads that hold the baton (and the main thread during
/// warm-up) clear guards, so which executions are first ones is a function of seed and code.
#[inline(always)]
pub fn bb_point(site: u8, ra: u64, guard: *mut u32) {
    let t = bb_tls();
    if t.is_null() {
        if !guard.is_null() && BB_MARK_ALL.load(std::sync::atomic::Ordering::Relaxed) {
            unsafe { std::ptr::write_volatile(guard, 0) };
        }
        return;
    }
    let t = unsafe { &mut *t };
    if t.gap == 0 || t.in_point != 0 {
        return;
    }
    if t.log_on != 0 && t.in_log == 0 {
        t.in_log = 1;
        t.log.push(ra);
        t.in_log = 0;
    }
    let mut force = false;
    if t.novel_on != 0 {
        if !guard.is_null() && unsafe { std::ptr::read_volatile(guard) } != 0 {
            unsafe { std::ptr::write_volatile(guard, 0) };
            t.dense = 16;
            force = true;
        } else if t.dense != 0 {
            t.dense -= 1;
            let mut x = t.rng;
            x ^= x >> 12;
            x ^= x << 25;
            x ^= x >> 27;
            t.rng = x;
            force = (x.wrapping_mul(0x2545_F491_4F6C_DD1D) >> 33) % 4 == 0;
        }
    }
    t.countdown = t.countdown.wrapping_sub(1);
    if t.countdown != 0 && !force {
        return;
    }
    if t.countdown == 0 {
        // xorshift64*
        let mut x = t.rng;
        x ^= x >> 12;
        x ^= x << 25;
        x ^= x >> 27;
        t.rng = x;
        let r = x.wrapping_mul(0x2545_F491_4F6C_DD1D) >> 33;
        let gap = t.gap as u64;
        let next = match r % 8 {
            0 | 1 => 1 + (r >> 3) % 3,
            2 => 1 + (r >> 3) % 24,
            _ => 1 + (r >> 3) % (2 * gap),
        };
        t.countdown = next as u32;
    }
    // everything `point` calls is instrumented: no nested basic-block points from in there
    t.in_point = 1;
    point(if force { SEAM_NOVEL } else { site });
    let t = bb_tls();
    if !t.is_null() {
        unsafe { (*t).in_point = 0 };
    }
}

pub static BB_LOG_ALL: std::sync::atomic::AtomicBool = std::sync::atomic::AtomicBool::new(false);
/// debugging aid: per-thread logs of all instrumentation callbacks are collected here at thread end
pub static CB_LOGS: Mutex<Vec<(usize, Vec<u64>)>> = Mutex::new(Vec::new());

/// Called by the global allocator before every allocation. Must neither allocate nor panic.
/// Only threads attached to a simulator whose run enabled allocator points ever get past the
/// first check; allocations made by the scheduler itself are filtered by the reentrancy flag.
pub static TRACE_ON: std::sync::atomic::AtomicBool = std::sync::atomic::AtomicBool::new(false);
pub static TRACE: Mutex<Vec<(u8, u8, usize)>> = Mutex::new(Vec::new());
thread_local! {
    pub static LAST_ALLOC: std::cell::Cell<usize> = const { std::cell::Cell::new(0) };
}

#[inline]
pub fn alloc_point() {
    let every = ALLOC_EVERY.try_with(|c| c.get()).unwrap_or(0);
    if every == 0 {
        return;
    }
    if IN_POINT.try_with(|c| c.get()).unwrap_or(true) {
        return;
    }
    let n = ALLOC_CTR.try_with(|c| {
        let v = c.get().wrapping_add(1);
        c.set(v);
        v
    });
    match n {
        Ok(v) if v % every == 0 => point(SEAM_ALLOC),
        _ => {}
    }
}

struct InPoint;
impl InPoint {
    fn enter() -> Option<InPoint> {
        // the mirror in the pthread-key state is what the instrumentation callbacks look at
        bb_set_in_point(1);
        let was = IN_POINT.try_with(|c| c.replace(true)).unwrap_or(true);
        if was {
            None
        } else {
            Some(InPoint)
        }
    }
}
impl Drop for InPoint {
    fn drop(&mut self) {
        let _ = IN_POINT.try_with(|c| c.set(false));
        bb_set_in_point(0);
    }
}

/// Runs harness-internal code (oracle checks that format or compare values of
/// the seam data type) without scheduling points and without fault injection.
pub fn suspended<R>(f: impl FnOnce() -> R) -> R {
    let old = SUSPENDED.with(|s| s.replace(true));
    let r = f();
    SUSPENDED.with(|s| s.set(old));
    r
}

fn lock(m: &Mutex<Inner>) -> MutexGuard<'_, Inner> {
    m.lock().unwrap_or_else(|e| e.into_inner())
}

impl Inner {
    fn eligible(&self) -> Vec<usize> {
        (0..self.status.len())
            .filter(|t| self.status[*t] == St::Ready)
            .collect()
    }

    /// Takes one scheduling decision and records it.
    fn decide(&mut self, cur: Option<usize>, novel: bool) -> Option<usize> {
        let el = self.eligible();
        if el.is_empty() {
            return None;
        }
        let step = self.step;
        let next = match &mut self.decider {
            Decider::Policy(p) => p.decide(&el, cur, step, novel),
            Decider::Strict(rec, pos) => {
                let want = rec.get(*pos).map(|b| *b as usize);
                *pos += 1;
                match want {
                    Some(w) if el.contains(&w) => w,
                    _ => {
                        self.rep.diverged = true;
                        fallback(&el, cur)
                    }
                }
            }
            Decider::Lenient(rec, pos) => {
                let want = rec.get(*pos).map(|b| *b as usize);
                *pos += 1;
                match want {
                    Some(w) if el.contains(&w) => w,
                    _ => fallback(&el, cur),
                }
            }
        };
        self.schedule.push(next as u8);
        self.digest.byte(0xFE);
        self.digest.byte(next as u8);
        self.rep.decisions += 1;
        Some(next)
    }
}

fn fallback(el: &[usize], cur: Option<usize>) -> usize {
    match cur {
        Some(c) if el.contains(&c) => c,
        _ => el[0],
    }
}

extern "C" {
    fn syscall(num: i64, ...) -> i64;
}

/// Is the OS thread sleeping in the kernel (futex wait etc.)? Read from /proc; `None` if unknown.
fn os_thread_sleeping(os_tid: i64) -> Option<bool> {
    if os_tid <= 0 {
        return None;
    }
    let stat = std::fs::read_to_string(format!("/proc/self/task/{os_tid}/stat")).ok()?;
    // the state is the first field after the parenthesised command name
    let rest = &stat[stat.rfind(')')? + 1..];
    let state = rest.trim_start().chars().next()?;
    Some(state == 'S')
}

static SEEN_BLOCKING: std::sync::atomic::AtomicBool = std::sync::atomic::AtomicBool::new(false);

pub enum Done {
    Finished,
    /// no simulated thread made a step or finished for `hang_ms`
    Hung,
}

impl Sim {
    pub fn new(n: usize, source: Source, faults: Vec<FaultSpec>, max_steps: u64, alloc_every: u32, bb_gap: u32, bb_seed: u64) -> Arc<Sim> {
        let decider = match source {
            Source::Policy { kind, seed } => {
                let mut p = PolicyState::new(kind, seed, n);
                p.novel_k = bb_novel_of(bb_gap);
                Decider::Policy(p)
            }
            Source::Strict(v) => Decider::Strict(v, 0),
            Source::Lenient(v) => Decider::Lenient(v, 0),
        };
        let nf = faults.len();
        Arc::new(Sim {
            alloc_every,
            bb_gap,
            bb_seed,
            inner: Mutex::new(Inner {
                os_tid: vec![0; n],
                status: vec![St::Ready; n],
                current: None,
                step: 0,
                max_steps,
                decider,
                schedule: Vec::new(),
                digest: Fnv::default(),
                op_index: vec![0; n],
                op_tag: vec![0; n],
                seam_count: vec![0; n],
                faults,
                fired: vec![None; nf],
                rep: SimReport {
                    site_hits: vec![0; N_SITE_IDS],
                    switch_at: vec![0; N_SITE_IDS],
                    ..Default::default()
                },
                all_done: false,
            }),
            cvs: (0..n).map(|_| Condvar::new()).collect(),
            done_cv: Condvar::new(),
        })
    }

    /// Called by a simulated thread first thing: registers the thread-local
    /// and parks until the scheduler hands over the baton.
    pub fn attach(self: &Arc<Self>, tid: usize) {
        let _guard = InPoint::enter();
        CUR.with(|c| *c.borrow_mut() = Some((self.clone(), tid)));
        ALLOC_CTR.with(|c| c.set(0));
        ALLOC_EVERY.with(|c| c.set(self.alloc_every));
        bb_attach(self.bb_gap, self.bb_seed, tid, BB_LOG_ALL.load(std::sync::atomic::Ordering::Relaxed));
        let mut g = lock(&self.inner);
        g.os_tid[tid] = unsafe { syscall(186 /* SYS_gettid on x86_64 */) };
        while g.current != Some(tid) {
            g = self.cvs[tid].wait(g).unwrap_or_else(|e| e.into_inner());
        }
    }

    /// Called by the main thread once all simulated threads are spawned.
    pub fn start(&self) {
        let mut g = lock(&self.inner);
        if let Some(first) = g.decide(None, false) {
            g.current = Some(first);
            self.cvs[first].notify_one();
        } else {
            g.all_done = true;
        }
    }

    /// Operation boundary: a scheduling point that also resets the per-op seam counter.
    pub fn begin_op(&self, tid: usize, op: u32, tag: u8) {
        let _guard = InPoint::enter();
        {
            let mut g = lock(&self.inner);
            g.op_index[tid] = op;
            g.op_tag[tid] = tag;
            g.seam_count[tid] = 0;
        }
        self.point(tid, SITE_OP_BOUNDARY);
    }

    /// Called by a simulated thread when it has run all its operations.
    pub fn finish(&self, tid: usize) {
        let _guard = InPoint::enter();
        let l = bb_detach();
        if !l.is_empty() {
            CB_LOGS.lock().unwrap().push((tid, l));
        }
        ALLOC_EVERY.with(|c| c.set(0));
        CUR.with(|c| *c.borrow_mut() = None);
        let mut g = lock(&self.inner);
        let was_blocked = g.status[tid] == St::ExtBlocked;
        g.status[tid] = St::Finished;
        g.digest.byte(0xFD);
        g.digest.byte(tid as u8);
        if g.status.iter().all(|s| *s == St::Finished) {
            g.all_done = true;
            g.current = None;
            self.done_cv.notify_all();
            return;
        }
        if was_blocked && g.current != Some(tid) {
            // somebody else holds the baton; nothing to hand over
            return;
        }
        match g.decide(Some(tid), false) {
            Some(next) => {
                g.current = Some(next);
                self.cvs[next].notify_one();
            }
            None => {
                // only externally blocked threads remain; they claim the baton themselves
                g.current = None;
            }
        }
    }

    /// The scheduling point.
    pub fn point(&self, tid: usize, site: u8) {
        let mut g = lock(&self.inner);
        if g.status[tid] == St::ExtBlocked {
            // we were given up on by the watchdog and ran unscheduled; rejoin.
            g.status[tid] = St::Ready;
            if g.current.is_none() {
                g.current = Some(tid);
            }
            while g.current != Some(tid) {
                g = self.cvs[tid].wait(g).unwrap_or_else(|e| e.into_inner());
            }
        }
        debug_assert_eq!(g.current, Some(tid));
        if TRACE_ON.load(std::sync::atomic::Ordering::Relaxed) {
            let aux = if site == SEAM_ALLOC { LAST_ALLOC.with(|c| c.get()) } else { 0 };
            TRACE.lock().unwrap().push((tid as u8, site, aux));
        }
        g.step += 1;
        g.rep.site_hits[site as usize] += 1;
        g.digest.byte(tid as u8);
        g.digest.byte(site);

        if is_user_seam(site) {
            g.seam_count[tid] += 1;
            let (op, cnt) = (g.op_index[tid], g.seam_count[tid]);
            let hit = (0..g.faults.len()).find(|i| {
                g.fired[*i].is_none()
                    && g.faults[*i].tid == tid
                    && g.faults[*i].op == op
                    && g.faults[*i].nth == cnt
            });
            if let Some(i) = hit {
                g.fired[i] = Some(site);
                let f = g.faults[i];
                g.rep.faults_fired.push((f, site));
                g.digest.byte(0xFC);
                drop(g);
                std::panic::panic_any(Injected { site });
            }
        }

        if g.step > g.max_steps {
            g.rep.step_capped = true;
            return;
        }
        let next = g.decide(Some(tid), site == SEAM_NOVEL).expect("the running thread is eligible");
        if next != tid {
            if site == SITE_OP_BOUNDARY {
                g.rep.switches_boundary += 1;
            } else {
                g.rep.switches_inner += 1;
                g.rep.switch_at[site as usize] += 1;
                let tag = g.op_tag[tid];
                if tag & TAG_SHARED_EVAL != 0 {
                    g.rep.sw_in_shared_eval += 1;
                }
                if tag & TAG_BIG != 0 && site == 7 {
                    g.rep.sw_in_big_evalstep += 1;
                }
                if site == 6 || site == 8 {
                    g.rep.sw_at_load += 1;
                }
                if site == 1 {
                    g.rep.sw_at_regex += 1;
                }
                if tag & TAG_ERRTEXT != 0 && (site == SEAM_DEBUG || site <= 3) {
                    g.rep.sw_in_errpath += 1;
                }
            }
            g.current = Some(next);
            self.cvs[next].notify_one();
            while g.current != Some(tid) {
                g = self.cvs[tid].wait(g).unwrap_or_else(|e| e.into_inner());
            }
        }
    }

    /// Main thread: waits for the run to end. `stall_ms`: if the baton holder
    /// makes no scheduling point for this long while another simulated thread
    /// is parked, it is assumed to be blocked on something the simulator does
    /// not know about (a real lock held by a parked thread) and the baton is
    /// given to another thread. `hang_ms`: no progress at all for this long.
    pub fn wait_done(&self, stall_ms: u64, hang_ms: u64) -> Done {
        let mut g = lock(&self.inner);
        let mut last_step = g.step;
        let mut last_fin = g.status.iter().filter(|s| **s == St::Finished).count();
        let mut last_change = Instant::now();
        let mut asleep_looks = 0u32;
        loop {
            if g.all_done {
                return Done::Finished;
            }
            let (ng, _) = self
                .done_cv
                .wait_timeout(g, Duration::from_millis(8))
                .unwrap_or_else(|e| e.into_inner());
            g = ng;
            if g.all_done {
                return Done::Finished;
            }
            let fin = g.status.iter().filter(|s| **s == St::Finished).count();
            if g.step != last_step || fin != last_fin {
                last_step = g.step;
                last_fin = fin;
                last_change = Instant::now();
                continue;
            }
            let idle = last_change.elapsed().as_millis() as u64;
            if idle >= hang_ms {
                g.rep.hung = true;
                return Done::Hung;
            }
            // The baton holder made no scheduling point for a while. If its OS thread is asleep in the
            // kernel (three looks in a row, >= 20 ms without progress) it is blocked on something
            // the simulator does not know about - a real lock held by a parked thread - and waiting
            // longer is pointless. Otherwise (it computes, or /proc is unavailable) fall back to the
            // plain timeout, which is shortened once real blocking has been seen in this process.
            let mut stall_now = if SEEN_BLOCKING.load(std::sync::atomic::Ordering::Relaxed) {
                stall_ms.min(120)
            } else {
                stall_ms
            };
            if idle >= 20 {
                if let Some(c) = g.current {
                    match os_thread_sleeping(g.os_tid[c]) {
                        Some(true) => asleep_looks += 1,
                        _ => asleep_looks = 0,
                    }
                    if asleep_looks >= 3 {
                        stall_now = 0;
                    }
                }
            } else {
                asleep_looks = 0;
            }
            if idle >= stall_now {
                if let Some(c) = g.current {
                    let other = (0..g.status.len()).find(|t| *t != c && g.status[*t] == St::Ready);
                    if let Some(o) = other {
                        g.status[c] = St::ExtBlocked;
                        g.rep.ext_block_events += 1;
                        SEEN_BLOCKING.store(true, std::sync::atomic::Ordering::Relaxed);
                        g.current = Some(o);
                        g.digest.byte(0xFB);
                        self.cvs[o].notify_one();
                        last_change = Instant::now();
                        asleep_looks = 0;
                    }
                }
            }
        }
    }

    pub fn report(&self) -> SimReport {
        let g = lock(&self.inner);
        let mut r = g.rep.clone();
        r.steps = g.step;
        r.trace_digest = g.digest.0;
        r.schedule = g.schedule.clone();
        if let Decider::Policy(p) = &g.decider {
            r.novel_stalls = p.novel_stalls;
        }
        r
    }
}

/// Scheduling point reachable from anywhere (exmex hook callback, data type
/// seams). A no-op on threads that are not attached to a simulator.
pub fn point(site: u8) {
    if SUSPENDED.try_with(|s| s.get()).unwrap_or(true) {
        return;
    }
    // scheduling points reached while the scheduler itself runs (its own allocations) are ignored
    let Some(_guard) = InPoint::enter() else { return };
    let cur = CUR
        .try_with(|c| c.try_borrow().ok().and_then(|b| b.as_ref().map(|(s, t)| (s.clone(), *t))))
        .ok()
        .flatten();
    match cur {
        Some((sim, tid)) => sim.point(tid, site),
        None => crate::miri_yield(site),
    }
}

#[cfg(exmex_verif)]
fn repo_hook(site: exmex::verif::Site) {
    point(site as u8);
}

/// Registers the exmex hook callback (only in the cfg(exmex_verif) build).
pub fn install_repo_hook() -> bool {
    #[cfg(exmex_verif)]
    {
        exmex::verif::set_hook(repo_hook);
        true
    }
    #[cfg(not(exmex_verif))]
    {
        false
    }
}

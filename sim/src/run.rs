//! One simulated run: concurrent phase under the baton scheduler, sequential
//! reference phase, oracles O1..O7.

use crate::kinds::{eval_str_obs, make_handle, Handle};
use crate::prng::Fnv;
use crate::sched::{
    Done, FaultSpec, Injected, Sim, SimReport, Source, TAG_BIG, TAG_ERRTEXT, TAG_PARSE,
    TAG_SHARED_EVAL,
};
use crate::workload::{Op, Workload};
use serde::{Deserialize, Serialize};
use std::panic::{catch_unwind, AssertUnwindSafe};
use std::sync::Arc;

pub const STACK: usize = 16 << 20;

#[derive(Clone, Debug, PartialEq, Eq, Serialize, Deserialize)]
pub enum Obs {
    Done(String),
    /// this operation was interrupted by an injected panic
    Victim(u8),
}

#[derive(Clone, Debug, PartialEq, Eq, Serialize, Deserialize)]
pub struct Violation {
    pub oracle: String,
    pub thread: usize,
    pub op: usize,
    pub op_kind: String,
    pub expected: String,
    pub got: String,
}

impl Violation {
    pub fn class(&self) -> (String, String) {
        (self.oracle.clone(), self.op_kind.clone())
    }
}

pub struct Outcome {
    pub obs: Vec<Vec<Obs>>,
    pub reference: Vec<Vec<String>>,
    pub report: SimReport,
    pub violations: Vec<Violation>,
}

/// What the minimiser and the fresh-process protocol need from an execution.
#[derive(Clone, Debug, Serialize, Deserialize)]
pub struct ExecResult {
    pub violations: Vec<Violation>,
    pub schedule: Vec<u8>,
    pub report: SimReport,
    pub n_victims: u64,
    pub ref_digest: u64,
}
impl From<&Outcome> for ExecResult {
    fn from(o: &Outcome) -> Self {
        ExecResult {
            violations: o.violations.clone(),
            schedule: o.report.schedule.clone(),
            report: o.report.clone(),
            n_victims: o.obs.iter().flatten().filter(|x| matches!(x, Obs::Victim(_))).count() as u64,
            ref_digest: digest_reference(&o.reference),
        }
    }
}

pub fn panic_msg(p: &(dyn std::any::Any + Send)) -> String {
    if let Some(s) = p.downcast_ref::<&str>() {
        s.to_string()
    } else if let Some(s) = p.downcast_ref::<String>() {
        s.clone()
    } else {
        "<non-string panic payload>".to_string()
    }
}

type Handles = Vec<Option<Arc<dyn Handle>>>;
/// slot table of one run: (version, expression) published by one thread for the others
pub type Slots = Arc<std::sync::Mutex<Vec<Option<(u32, Arc<dyn Handle>)>>>>;

pub fn new_slots() -> Slots {
    Arc::new(std::sync::Mutex::new(vec![None; 4]))
}

/// Executes one operation. Pure with respect to everything but `handles` (Drop).
pub fn exec_op(op: &Op, handles: &mut Handles, slots: &Slots) -> String {
    let get = |handles: &Handles, j: usize| handles.get(j).cloned().flatten();
    match op {
        Op::Parse { kind, form, text, compile, .. } => match make_handle(*kind, *form, text, *compile) {
            Ok(h) => format!("ok|{}|eval0={}", h.inspect_full(), h.eval(0, 1, 0)),
            Err(m) => format!("err:{m}"),
        },
        Op::EvalStr { text } => eval_str_obs(text),
        Op::Eval { j, point, mode, delta } => match get(handles, *j) {
            Some(h) => h.eval(*point, *mode, *delta),
            None => "nohandle".to_string(),
        },
        Op::Inspect { j } => match get(handles, *j) {
            Some(h) => h.inspect(),
            None => "nohandle".to_string(),
        },
        Op::Convert { j } => match get(handles, *j) {
            Some(h) => h.convert(),
            None => "nohandle".to_string(),
        },
        Op::Derive { j, which } => match get(handles, *j) {
            Some(h) => h.derive(*which),
            None => "nohandle".to_string(),
        },
        Op::SerdeRoundTrip { j } => match get(handles, *j) {
            Some(h) => h.serde_rt(),
            None => "nohandle".to_string(),
        },
        Op::Drop { j } => {
            if let Some(slot) = handles.get_mut(*j) {
                *slot = None;
            }
            "dropped".to_string()
        }
        Op::EvalBurst { j, point, mode, k } => match get(handles, *j) {
            Some(h) => (0..*k as u32)
                .map(|i| h.eval(*point + 24 * i, *mode, 0))
                .collect::<Vec<_>>()
                .join(";"),
            None => "nohandle".to_string(),
        },
        Op::Publish { slot, version, kind, form, text, compile } => {
            match make_handle(*kind, *form, text, *compile) {
                Ok(h) => {
                    // harness lock: no scheduling point may fall inside (a parked holder would block others for real)
                    let old = crate::sched::suspended(|| {
                        let mut g = slots.lock().unwrap_or_else(|e| e.into_inner());
                        g.get_mut(*slot).and_then(|s| s.replace((*version, h)))
                    });
                    drop(old);
                    "published".to_string()
                }
                Err(m) => format!("notpublished:{m}"),
            }
        }
        Op::EvalSlot { slot, point, mode } => {
            let cur = crate::sched::suspended(|| {
                let g = slots.lock().unwrap_or_else(|e| e.into_inner());
                g.get(*slot).cloned().flatten()
            });
            match cur {
                Some((v, h)) => {
                    // the version tag must survive a panicking evaluation (natural operator panics are
                    // ordinary observations); an injected fault keeps unwinding to the operation boundary
                    let res = match catch_unwind(AssertUnwindSafe(|| h.eval(*point, *mode, 0))) {
                        Ok(s) => s,
                        Err(p) if p.is::<Injected>() => std::panic::resume_unwind(p),
                        Err(p) => format!("panic:{}", panic_msg(&*p)),
                    };
                    format!("v{v}:{res}")
                }
                None => "absent".to_string(),
            }
        }
        Op::Unpublish { slot } => {
            let old = crate::sched::suspended(|| {
                let mut g = slots.lock().unwrap_or_else(|e| e.into_inner());
                g.get_mut(*slot).and_then(|s| s.take())
            });
            drop(old);
            "unpublished".to_string()
        }
    }
}

/// Does the observation of an operation agree with its reference? For everything but `EvalSlot`
/// that is equality. What an `EvalSlot` sees depends on the schedule (nothing yet, or any version
/// the publisher has put there); its reference lists the result for every version, and the
/// observation must be "absent" or the listed result of the version it saw.
pub fn obs_matches(op: &Op, got: &str, reference: &str) -> bool {
    match op {
        Op::EvalSlot { .. } => {
            got == "absent" || reference.split('\u{1}').any(|entry| entry == got)
        }
        _ => got == reference,
    }
}

pub fn guarded(op: &Op, handles: &mut Handles, slots: &Slots) -> Obs {
    match catch_unwind(AssertUnwindSafe(|| exec_op(op, handles, slots))) {
        Ok(s) => Obs::Done(canonical(&s)),
        Err(p) => match p.downcast_ref::<Injected>() {
            Some(inj) => Obs::Victim(inj.site),
            None => Obs::Done(canonical(&format!("panic:{}", panic_msg(&*p)))),
        },
    }
}

fn op_tag(op: &Op, w: &Workload) -> u8 {
    let mut tag = 0;
    if let Op::Eval { .. } | Op::EvalBurst { .. } = op {
        tag |= TAG_SHARED_EVAL;
    }
    if let Some(j) = op.shared_index() {
        if w.shared.get(j).map(|s| s.n_operands > 64).unwrap_or(false) {
            tag |= TAG_BIG;
        }
    }
    if let Op::Parse { damaged, .. } = op {
        tag |= TAG_PARSE;
        if *damaged {
            tag |= TAG_ERRTEXT;
        }
    }
    tag
}

pub fn parse_shared(w: &Workload) -> Handles {
    w.shared
        .iter()
        .map(|s| {
            catch_unwind(AssertUnwindSafe(|| make_handle(s.kind, s.form, &s.text, s.compile).ok()))
                .unwrap_or(None)
        })
        .collect()
}

/// The sequential reference: every operation on *pristine* state (fresh parses
/// of the shared texts for each single operation), single-threaded, no simulator.
pub fn reference(w: &Workload) -> Vec<Vec<String>> {
    // identical operations have identical references by definition (every reference is computed on
    // pristine state), so each distinct operation is executed once
    let mut memo: std::collections::HashMap<String, String> = std::collections::HashMap::new();
    // Publish / Unpublish in the reference act on a table nobody reads
    let ref_slots = new_slots();
    w.threads
        .iter()
        .map(|ops| {
            let mut dropped = vec![false; w.shared.len()];
            ops.iter()
                .map(|op| {
                    let live = match op.shared_index() {
                        Some(j) => j < w.shared.len() && !dropped[j],
                        None => false,
                    };
                    if let Op::Drop { j } = op {
                        if *j < dropped.len() {
                            dropped[*j] = true;
                        }
                    }
                    let key = format!("{op:?}|{live}");
                    if let Some(v) = memo.get(&key) {
                        return v.clone();
                    }
                    if let Op::EvalSlot { slot, point, mode } = op {
                        // one entry per version ever published into this slot (fresh parse each)
                        let mut entries: Vec<String> = Vec::new();
                        for pop in w.threads.iter().flatten() {
                            if let Op::Publish { slot: s, version, kind, form, text, compile } = pop {
                                if s == slot {
                                    let h = catch_unwind(AssertUnwindSafe(|| make_handle(*kind, *form, text, *compile).ok()))
                                        .unwrap_or(None);
                                    if let Some(h) = h {
                                        let res = catch_unwind(AssertUnwindSafe(|| h.eval(*point, *mode, 0)))
                                            .unwrap_or_else(|p| format!("panic:{}", panic_msg(&*p)));
                                        entries.push(canonical(&format!("v{version}:{res}")));
                                    }
                                }
                            }
                        }
                        let v = entries.join("\u{1}");
                        memo.insert(key, v.clone());
                        return v;
                    }
                    let mut handles: Handles = vec![None; w.shared.len()];
                    if live {
                        let j = op.shared_index().unwrap();
                        let s = &w.shared[j];
                        handles[j] = catch_unwind(AssertUnwindSafe(|| {
                            make_handle(s.kind, s.form, &s.text, s.compile).ok()
                        }))
                        .unwrap_or(None);
                    }
                    let v = match guarded(op, &mut handles, &ref_slots) {
                        Obs::Done(s) => s,
                        Obs::Victim(_) => "victim-in-reference?!".to_string(),
                    };
                    memo.insert(key, v.clone());
                    v
                })
                .collect()
        })
        .collect()
}

#[derive(Clone, Copy, Debug)]
pub struct ExecCfg {
    pub max_steps: u64,
    pub stall_ms: u64,
    pub hang_ms: u64,
    /// 0 = off; k = every k-th allocation of a simulated thread is a scheduling point
    pub alloc_every: u32,
    /// 0 = off; mean gap between basic-block / load-store scheduling points (sim_bb build only)
    pub bb_gap: u32,
    pub bb_seed: u64,
}
impl Default for ExecCfg {
    fn default() -> Self {
        ExecCfg { max_steps: 30_000, stall_ms: 1500, hang_ms: 10_000, alloc_every: 0, bb_gap: 0, bb_seed: 0 }
    }
}
impl ExecCfg {
    pub fn with_alloc(alloc_every: u32) -> Self {
        ExecCfg { alloc_every, max_steps: if alloc_every > 0 { 80_000 } else { 30_000 }, ..Default::default() }
    }
    pub fn with_seams(alloc_every: u32, bb_gap: u32, bb_seed: u64) -> Self {
        let fine = alloc_every > 0 || bb_gap > 0;
        ExecCfg { alloc_every, bb_gap, bb_seed, max_steps: if fine { 120_000 } else { 30_000 }, ..Default::default() }
    }
}

/// Concurrent phase only. Returns per-thread observations, per-thread O2
/// findings (single-thread histories check immutability after every op) and the report.
fn concurrent_owned(
    w: &Workload,
    source: Source,
    cfg: &ExecCfg,
    shared: Handles,
) -> (Vec<Vec<Obs>>, Vec<Violation>, SimReport, bool) {
    // every simulated thread gets its own clones; ours are dropped before the first thread runs
    concurrent_impl(w, source, cfg, &shared, Some(shared.clone()))
}

fn concurrent(
    w: &Workload,
    source: Source,
    cfg: &ExecCfg,
    shared: &Handles,
) -> (Vec<Vec<Obs>>, Vec<Violation>, SimReport, bool) {
    concurrent_impl(w, source, cfg, shared, None)
}

fn concurrent_impl(
    w: &Workload,
    source: Source,
    cfg: &ExecCfg,
    shared: &Handles,
    give_away: Option<Handles>,
) -> (Vec<Vec<Obs>>, Vec<Violation>, SimReport, bool) {
    let n = w.threads.len();
    let sim = Sim::new(n, source, w.faults.clone(), cfg.max_steps, cfg.alloc_every, cfg.bb_gap, cfg.bb_seed);
    let w_arc = Arc::new(w.clone());
    let slots = new_slots();
    let check_each = n == 1;
    let mut joins = Vec::new();
    for tid in 0..n {
        let sim = sim.clone();
        let w = w_arc.clone();
        let mut handles: Handles = shared.clone();
        let slots = slots.clone();
        let jh = std::thread::Builder::new()
            .stack_size(STACK)
            .spawn(move || {
                sim.attach(tid);
                let mut obs = Vec::new();
                let mut viol = Vec::new();
                let body = catch_unwind(AssertUnwindSafe(|| {
                    for (i, op) in w.threads[tid].iter().enumerate() {
                        sim.begin_op(tid, i as u32, op_tag(op, &w));
                        let o = guarded(op, &mut handles, &slots);
                        obs.push(o);
                        if check_each {
                            crate::sched::suspended(|| {
                            for (j, h) in handles.iter().enumerate() {
                                if let Some(h) = h {
                                    if let Err(m) = h.unchanged() {
                                        viol.push(Violation {
                                            oracle: "O2".into(),
                                            thread: tid,
                                            op: i,
                                            op_kind: op.kind_name().into(),
                                            expected: format!("shared[{j}] unchanged"),
                                            got: m,
                                        });
                                    }
                                }
                            }
                            });
                        }
                    }
                }));
                crate::sched::suspended(|| {
                    drop(handles);
                    drop(slots);
                });
                sim.finish(tid);
                if let Err(p) = body {
                    viol.push(Violation {
                        oracle: "HARNESS".into(),
                        thread: tid,
                        op: obs.len(),
                        op_kind: "-".into(),
                        expected: "no panic outside an operation".into(),
                        got: panic_msg(&*p),
                    });
                }
                (obs, viol)
            })
            .expect("spawn");
        joins.push(jh);
    }
    drop(give_away);
    sim.start();
    let done = sim.wait_done(cfg.stall_ms, cfg.hang_ms);
    let mut all_obs = Vec::new();
    let mut viol = Vec::new();
    let hung = matches!(done, Done::Hung);
    if hung {
        // threads cannot be joined; they are leaked and the process will be ended by the caller
        for _ in 0..n {
            all_obs.push(Vec::new());
        }
    } else {
        for jh in joins {
            let (o, v) = jh.join().expect("simulated thread body is panic-proof");
            all_obs.push(o);
            viol.extend(v);
        }
    }
    (all_obs, viol, sim.report(), hung)
}

/// Runs the workload under `source` and applies all oracles.
pub fn execute(w: &Workload, source: Source, cfg: &ExecCfg) -> Outcome {
    let mut shared = parse_shared(w);
    let weak: Vec<Option<std::sync::Weak<dyn Handle>>> =
        shared.iter().map(|h| h.as_ref().map(Arc::downgrade)).collect();
    let (obs, mut violations, report, hung) = if w.main_keeps_handles {
        concurrent(w, source, cfg, &shared)
    } else {
        // hand the only strong references to the simulated threads
        let given = std::mem::take(&mut shared);
        concurrent_owned(w, source, cfg, given)
    };
    if !w.main_keeps_handles {
        // whatever is still alive (it should not be) is looked at below
        shared = weak.iter().map(|x| x.as_ref().and_then(|x| x.upgrade())).collect();
    }
    // after a hang the stuck threads may hold real locks for ever: touch nothing of the code under test
    let reference = if hung { Vec::new() } else { reference(w) };
    if hung {
        violations.push(Violation {
            oracle: "O7".into(),
            thread: 0,
            op: 0,
            op_kind: "-".into(),
            expected: format!("progress within {} ms", cfg.hang_ms),
            got: "no simulated thread made a step or finished".into(),
        });
        return Outcome { obs, reference, report, violations };
    }
    // O1 / O5
    let fired: Vec<FaultSpec> = report.faults_fired.iter().map(|(f, _)| *f).collect();
    for (t, ops) in w.threads.iter().enumerate() {
        for (i, op) in ops.iter().enumerate() {
            match obs[t].get(i) {
                Some(Obs::Done(got)) => {
                    let exp = &reference[t][i];
                    if !obs_matches(op, got, exp) {
                        violations.push(Violation {
                            oracle: "O1".into(),
                            thread: t,
                            op: i,
                            op_kind: op.kind_name().into(),
                            expected: exp.clone(),
                            got: got.clone(),
                        });
                    }
                }
                Some(Obs::Victim(site)) => {
                    let planned = fired.iter().any(|f| f.tid == t && f.op as usize == i);
                    if !planned {
                        violations.push(Violation {
                            oracle: "O5".into(),
                            thread: t,
                            op: i,
                            op_kind: op.kind_name().into(),
                            expected: "injected panic only in the victim's operation".into(),
                            got: format!("injected panic surfaced here (site {site})"),
                        });
                    }
                }
                None => violations.push(Violation {
                    oracle: "HARNESS".into(),
                    thread: t,
                    op: i,
                    op_kind: op.kind_name().into(),
                    expected: "an observation".into(),
                    got: "missing".into(),
                }),
            }
        }
    }
    // O2 at the end of every run
    for (j, h) in shared.iter().enumerate() {
        if let Some(h) = h {
            if let Err(m) = h.unchanged() {
                violations.push(Violation {
                    oracle: "O2".into(),
                    thread: 0,
                    op: 0,
                    op_kind: "end-of-run".into(),
                    expected: format!("shared[{j}] unchanged"),
                    got: m,
                });
            }
        }
    }
    Outcome { obs, reference, report, violations }
}

/// Strips function addresses: they differ between processes (ASLR), between codegen units and,
/// under Miri, between two casts of the same function, so they are no part of any observation.
pub fn canonical(s: &str) -> String {
    let b = s.as_bytes();
    let mut out = String::with_capacity(s.len());
    let mut i = 0;
    while i < b.len() {
        if b[i] == b'0' && i + 1 < b.len() && b[i + 1] == b'x' {
            let mut k = i + 2;
            while k < b.len() && b[k].is_ascii_hexdigit() {
                k += 1;
            }
            if k > i + 2 {
                out.push_str("0xADDR");
                i = k;
                continue;
            }
        }
        // safe: we only cut at ASCII positions
        let ch_len = utf8_len(b[i]);
        out.push_str(&s[i..i + ch_len]);
        i += ch_len;
    }
    out
}

fn utf8_len(b: u8) -> usize {
    if b < 0x80 {
        1
    } else if b >> 5 == 0b110 {
        2
    } else if b >> 4 == 0b1110 {
        3
    } else {
        4
    }
}

pub fn digest_reference(reference: &[Vec<String>]) -> u64 {
    let mut f = Fnv::default();
    for t in reference {
        f.byte(0xFF);
        for o in t {
            f.bytes(canonical(o).as_bytes());
            f.byte(0);
        }
    }
    f.0
}

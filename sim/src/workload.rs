//! Workload: what the simulated clients do. Generation is a pure function of
//! the run seed; it produces only *texts and call sequences* and needs no
//! knowledge of exmex' semantics because the oracle is differential.

use crate::kinds::{Form, Kind};
use crate::prng::Rng;
use crate::sched::FaultSpec;
use serde::{Deserialize, Serialize};

#[derive(Clone, Debug, Serialize, Deserialize, PartialEq)]
pub struct SharedSpec {
    pub kind: Kind,
    pub form: Form,
    pub text: String,
    pub n_operands: usize,
    /// false: the flat expression is created with `parse_wo_compile` (no constant folding)
    #[serde(default = "yes")]
    pub compile: bool,
    /// deeply nested small expression (see gen_tower)
    #[serde(default)]
    pub tower: bool,
}
fn yes() -> bool {
    true
}

#[derive(Clone, Debug, Serialize, Deserialize, PartialEq)]
pub enum Op {
    /// parse a text (the thread's own), observe the resulting expression
    Parse { kind: Kind, form: Form, text: String, compile: bool, damaged: bool },
    /// exmex::eval_str::<f64>
    EvalStr { text: String },
    /// evaluate shared expression j; mode selects eval / eval_relaxed / eval_vec / eval_iter
    Eval { j: usize, point: u32, mode: u8, delta: i8 },
    Inspect { j: usize },
    /// clone -> other form -> back, evaluating on the way
    Convert { j: usize },
    /// clone -> partial / operate_unary / operate_binary / subs / compile
    Derive { j: usize, which: u32 },
    SerdeRoundTrip { j: usize },
    /// drop this thread's handle of shared expression j
    Drop { j: usize },
    /// parse a text and put the expression into slot `slot` of the run's slot table, replacing (and
    /// dropping) what was there; `version` numbers the publications of one slot. Only the slot's
    /// publisher thread does this, so the sequence of versions is the same in every schedule.
    Publish { slot: usize, version: u32, kind: Kind, form: Form, text: String, compile: bool },
    /// evaluate whatever another thread has published in the slot (nothing, or any version)
    EvalSlot { slot: usize, point: u32, mode: u8 },
    /// take the expression out of the slot and drop the slot's handle
    Unpublish { slot: usize },
    /// `k` consecutive evaluations of shared expression j by one thread, at the points
    /// `point`, `point + 24`, `point + 48`, ...: the same shapes (array lengths, variants) with
    /// different values, back to back (anything keyed by the arguments' shape or address is hit)
    EvalBurst { j: usize, point: u32, mode: u8, k: u8 },
}

impl Op {
    pub fn kind_name(&self) -> &'static str {
        match self {
            Op::Parse { .. } => "Parse",
            Op::EvalStr { .. } => "EvalStr",
            Op::Eval { .. } => "Eval",
            Op::Inspect { .. } => "Inspect",
            Op::Convert { .. } => "Convert",
            Op::Derive { .. } => "Derive",
            Op::SerdeRoundTrip { .. } => "SerdeRoundTrip",
            Op::Drop { .. } => "Drop",
            Op::Publish { .. } => "Publish",
            Op::EvalSlot { .. } => "EvalSlot",
            Op::Unpublish { .. } => "Unpublish",
            Op::EvalBurst { .. } => "EvalBurst",
        }
    }
    pub fn shared_index(&self) -> Option<usize> {
        match self {
            Op::Eval { j, .. }
            | Op::Inspect { j }
            | Op::Convert { j }
            | Op::Derive { j, .. }
            | Op::SerdeRoundTrip { j }
            | Op::EvalBurst { j, .. }
            | Op::Drop { j } => Some(*j),
            _ => None,
        }
    }
}

#[derive(Clone, Debug, Serialize, Deserialize, PartialEq)]
pub struct Workload {
    pub shared: Vec<SharedSpec>,
    pub threads: Vec<Vec<Op>>,
    pub faults: Vec<FaultSpec>,
    /// false: only the simulated threads hold the shared expressions (`Arc`s); each drops its handle
    /// after its last use, so the LAST handle of an expression is dropped by some simulated thread
    /// while others are still working (the end-of-run immutability check is then not possible)
    #[serde(default = "yes")]
    pub main_keeps_handles: bool,
}

impl Workload {
    pub fn n_ops(&self) -> usize {
        self.threads.iter().map(|t| t.len()).sum()
    }
}

// ---------------------------------------------------------------------------------------------
// text generation
// ---------------------------------------------------------------------------------------------

struct Lang {
    bin: &'static [&'static str],
    call: &'static [&'static str],
    unary: &'static [&'static str],
    consts: &'static [&'static str],
    vars: &'static [&'static str],
    lits: &'static [&'static str],
}

const L_F: Lang = Lang {
    bin: &["+", "-", "*", "/", "^", "+", "*", "-"],
    call: &["min", "max", "atan2"],
    unary: &[
        "sin", "cos", "-", "exp", "abs", "sqrt", "ln", "tanh", "signum", "floor", "+", "cbrt",
        "log2", "atan", "round",
    ],
    consts: &["PI", "E", "π", "τ", "TAU"],
    vars: &["x", "y", "z", "w", "{a b}", "α", "v_1", "q", "r", "{x}", "xx", "βeta"],
    lits: &["1", "2", "0.5", "3.25", "10", "0", "7.", ".5", "12.125", "3"],
};
const L_VAL: Lang = Lang {
    bin: &[
        "+", "-", "*", "/", "%", " == ", " != ", " < ", " >= ", " && ", " || ", " if ", " else ",
        "^", "+", "*",
    ],
    call: &["min", "max", "dot"],
    unary: &["-", "abs", "to_float", "to_int", "!", "fact", "sin", "length", "signum"],
    consts: &["PI", "E"],
    vars: &["x", "y", "z", "{v w}", "k", "m"],
    // "fact(2.5)" and "to_int([1,2])" fold to the constant `Val::Error(ExError{..})`: an owned error
    // message inside a shared expression that every evaluation clones and drops
    lits: &["1", "2", "3.5", "true", "false", "[1,2,3]", "[0.5, 2]", "0", "7", "2.0", "fact(2.5)", "to_int([1,2])", "13", "15", "20", "fact(14)",
        // comparisons that are decided by the last bits (0.1+0.2 is 1 ulp above 0.3)
        "(0.1+0.2==0.3)", "(0.1+0.2!=0.3)", "(0.1+0.2)", "0.3"],
};
/// array-centred texts of the value type: every variable is meant to be bound to an array
const L_VAL_ARR: Lang = Lang {
    bin: &["+", "-", "*", "+", " else ", " dot ", " dot ", " min "],
    call: &["dot", "min"],
    unary: &["length", "-", "abs"],
    consts: &[],
    vars: &["a", "b", "c"],
    lits: &["[1,2,3]", "a", "b"],
};
const L_BOOL: Lang = Lang {
    bin: &[" && ", " || ", " == ", " xor "],
    call: &[],
    unary: &["!", "id"],
    consts: &[],
    vars: &["p", "q", "r", "s", "{t u}"],
    lits: &["true", "false"],
};
const L_SIM: Lang = Lang {
    bin: &["+", "-", "*", "+", "-", "*", "**", "/", "%", "+", "*", "-", "+", "*", "<", "<=", "**"],
    call: &["min", "max"],
    unary: &["-", "sq", "inc"],
    consts: &["TEN"],
    vars: &["x", "y", "z", "{a b}", "n", "m", "k"],
    lits: &["0", "1", "2", "3", "5", "7", "12", "100"],
};

const L_SIM3: Lang = Lang {
    bin: &["&", "&&", "|", "||", "<<", "<", ">>", ">", "==", "&", "|"],
    call: &[],
    unary: &["neg", "tw", "~"],
    consts: &["ONE"],
    vars: &["x", "y", "z", "{a b}", "n", "m", "k"],
    lits: &["0", "1", "2", "3", "5", "7", "12", "100"],
};
const L_F64B: Lang = Lang {
    bin: &["+", "-", "*", "/", "**", "<", "<=", "==", "+", "*"],
    call: &[],
    unary: &["dbl", "half", "-", "pad01", "pad17"],
    consts: &["K"],
    vars: &["x", "y", "z", "w", "{a b}", "q", "r"],
    lits: &["1", "2", "0.5", "3.25", "10", "0", "7.", ".5"],
};

/// text of a generated-table kind: `+ * -`, the table's own unary function and constant
pub fn gen_kind_text(r: &mut Rng, n: u8, n_operands: usize) -> String {
    let un = ["ga", "gb", "gc", "gd", "ge", "gf", "gg", "gh", "gi", "gj", "gk", "gl", "gm", "gn", "go", "gp", "gq", "gr", "gs",
        "gt", "gu", "gv", "gw", "gx"][(n % 24) as usize];
    let kc = ["KA", "KB", "KC", "KD", "KE", "KF", "KG", "KH", "KI", "KJ", "KK", "KL", "KM", "KN", "KO", "KP", "KQ", "KR", "KS",
        "KT", "KU", "KV", "KW", "KX"][(n % 24) as usize];
    let mut s = String::new();
    for i in 0..n_operands.max(1) {
        if i > 0 {
            s.push_str(["+", "*", "-"][r.below(3)]);
        }
        match r.below(5) {
            0 => s.push_str(&format!("{un}(x)")),
            1 => s.push_str(kc),
            2 => s.push_str(["x", "y", "z"][r.below(3)]),
            3 => s.push_str(&format!("{un}({})", ["1", "2.5", "y"][r.below(3)])),
            _ => s.push_str(["1", "2", "0.5", "3"][r.below(4)]),
        }
    }
    s
}

fn lang(kind: Kind) -> &'static Lang {
    match kind {
        Kind::F64 | Kind::F32 => &L_F,
        Kind::Val | Kind::Val64 => &L_VAL,
        Kind::Bool => &L_BOOL,
        Kind::Sim | Kind::Sim2 => &L_SIM,
        Kind::Sim3 => &L_SIM3,
        Kind::F64b => &L_F64B,
        Kind::Gen(_) => &L_F64B, // not used: gen_text special-cases Gen
    }
}

pub fn is_sim(kind: Kind) -> bool {
    matches!(kind, Kind::Sim | Kind::Sim2 | Kind::Sim3)
}

fn sp(r: &mut Rng, out: &mut String) {
    if r.chance(1, 4) {
        out.push(' ');
    }
}

fn atom(r: &mut Rng, l: &Lang, out: &mut String) {
    // optional unary prefixes
    let mut closes = 0;
    while r.chance(1, 5) && closes < 3 {
        let u = *r.pick(l.unary);
        out.push_str(u);
        if u.chars().all(|c| c.is_alphanumeric() || c == '_') || r.chance(1, 2) {
            out.push('(');
            closes += 1;
        }
    }
    match r.below(10) {
        0..=4 => out.push_str(*r.pick(l.vars)),
        5..=8 => out.push_str(*r.pick(l.lits)),
        _ => {
            if l.consts.is_empty() {
                out.push_str(*r.pick(l.lits))
            } else {
                out.push_str(*r.pick(l.consts))
            }
        }
    }
    for _ in 0..closes {
        out.push(')');
    }
}

fn gen_into(r: &mut Rng, l: &Lang, n: usize, depth: usize, out: &mut String) {
    if n <= 1 {
        atom(r, l, out);
        return;
    }
    // split n operands into parts
    let mut parts: Vec<usize> = Vec::new();
    let mut left = n;
    let flat_bias = if n > 40 { 9 } else { 6 };
    while left > 0 {
        let sz = if depth >= 4 || r.chance(flat_bias, 10) {
            1
        } else {
            r.range(1, left.min(12))
        };
        // a part must not swallow everything, otherwise we recurse forever
        let sz = if parts.is_empty() && sz == n { n - 1 } else { sz };
        parts.push(sz);
        left -= sz;
    }
    for (i, sz) in parts.iter().enumerate() {
        if i > 0 {
            sp(r, out);
            out.push_str(*r.pick(l.bin));
            sp(r, out);
        }
        if *sz == 1 {
            atom(r, l, out);
        } else if *sz >= 2 && !l.call.is_empty() && r.chance(1, 6) {
            let a = r.range(1, sz - 1);
            out.push_str(*r.pick(l.call));
            out.push('(');
            gen_into(r, l, a, depth + 1, out);
            out.push(',');
            sp(r, out);
            gen_into(r, l, sz - a, depth + 1, out);
            out.push(')');
        } else {
            if r.chance(1, 3) {
                out.push_str(*r.pick(l.unary));
            }
            out.push('(');
            gen_into(r, l, *sz, depth + 1, out);
            out.push(')');
        }
    }
}

/// A deeply nested but small expression: `((((x+1)*y)-2)/z)...` or `sin(cos(sin(...)))` wrapped
/// around a chain. Nesting depth = n_operands - 1; cheap to evaluate, convert and differentiate,
/// but every recursive walk over it (deep form, partial, unparse, flatten) goes `depth` levels down.
pub fn gen_tower(r: &mut Rng, kind: Kind, n_operands: usize) -> String {
    if let Kind::Gen(n) = kind {
        return gen_kind_text(r, n, n_operands.min(12));
    }
    let l = lang(kind);
    let mut s = String::new();
    atom(r, l, &mut s);
    for _ in 1..n_operands.max(2) {
        let mut t = String::new();
        let wrap_unary = r.chance(1, 4);
        if wrap_unary {
            t.push_str(*r.pick(l.unary));
        }
        t.push('(');
        if r.chance(1, 2) {
            t.push_str(&s);
            t.push_str(*r.pick(l.bin));
            atom(r, l, &mut t);
        } else {
            atom(r, l, &mut t);
            t.push_str(*r.pick(l.bin));
            t.push_str(&s);
        }
        t.push(')');
        s = t;
    }
    s
}

pub fn gen_text(r: &mut Rng, kind: Kind, n_operands: usize) -> String {
    if let Kind::Gen(n) = kind {
        return gen_kind_text(r, n, n_operands.min(12));
    }
    let mut s = String::new();
    let l = if matches!(kind, Kind::Val | Kind::Val64) && n_operands <= 12 && r.chance(1, 4) {
        &L_VAL_ARR
    } else {
        lang(kind)
    };
    gen_into(r, l, n_operands.max(1), 0, &mut s);
    s
}

const JUNK: &[&str] = &[
    "(", ")", ",", "+", "*", "..", "{", "}", " ", "$", "sin", "1e", "-", "^^", "#", "é", "[", "if",
];

pub fn damage(r: &mut Rng, text: &str) -> String {
    let chars: Vec<char> = text.chars().collect();
    let mut out: Vec<char> = chars.clone();
    for _ in 0..r.range(1, 2) {
        if out.is_empty() {
            out.extend(r.pick(JUNK).chars());
            continue;
        }
        let pos = r.below(out.len());
        match r.below(4) {
            0 => {
                out.remove(pos);
            }
            1 => {
                let j: Vec<char> = r.pick(JUNK).chars().collect();
                for (k, c) in j.into_iter().enumerate() {
                    out.insert(pos + k, c);
                }
            }
            2 => {
                let c = out[pos];
                out.insert(pos, c);
            }
            _ => out.truncate(pos),
        }
    }
    out.into_iter().collect()
}

// ---------------------------------------------------------------------------------------------
// workload generation (swarm style: sizes, mix and fault kinds vary per run)
// ---------------------------------------------------------------------------------------------

fn pick_kind(r: &mut Rng) -> Kind {
    if r.chance(1, 12) {
        return Kind::Gen(r.below(24) as u8);
    }
    match r.below(100) {
        0..=21 => Kind::F64,
        22..=29 => Kind::F64b,
        30..=44 => Kind::Sim,
        45..=54 => Kind::Sim2,
        55..=62 => Kind::Sim3,
        63..=71 => Kind::Val,
        72..=76 => Kind::Val64,
        77..=85 => Kind::F32,
        _ => Kind::Bool,
    }
}

fn pick_size(r: &mut Rng) -> usize {
    match r.below(100) {
        0..=44 => r.range(1, 8),
        45..=69 => r.range(9, 32),
        70..=81 => r.range(33, 64),
        82..=91 => r.range(65, 130),
        _ => r.range(180, 220),
    }
}

#[derive(Clone, Copy, Debug, Serialize, Deserialize, PartialEq, Eq)]
pub struct GenCfg {
    pub with_faults: bool,
    /// cap on operands of generated expressions (Miri runs use a small cap)
    pub max_operands: usize,
    pub max_threads: usize,
    pub max_ops: usize,
}

impl GenCfg {
    pub fn native(with_faults: bool) -> Self {
        GenCfg { with_faults, max_operands: 220, max_threads: 4, max_ops: 12 }
    }
}

pub fn gen_workload(seed: u64, cfg: GenCfg) -> Workload {
    let mut r = Rng::new(seed);
    let n_threads = match r.below(100) {
        0..=9 => 1,
        10..=54 => 2,
        55..=84 => 3,
        _ => 4,
    }
    .min(cfg.max_threads);
    let n_shared = r.range(1, 4);
    // swarm: per-run bias for operation mix
    let w_eval = r.range(20, 70);
    let w_parse = r.range(5, 40);
    let w_other = r.range(5, 40);
    let mut shared = Vec::new();
    for i in 0..n_shared {
        let mut kind = pick_kind(&mut r);
        if cfg.with_faults && i == 0 && !is_sim(kind) {
            kind = [Kind::Sim, Kind::Sim, Kind::Sim2, Kind::Sim3][r.below(4)]; // panic faults need user-code seams
        }
        let form = if r.chance(65, 100) { Form::Flat } else { Form::Deep };
        let tower = r.chance(1, 8);
        let (n_operands, text) = if tower {
            let n = [12usize, 24, 40, 70, 100][r.below(5)].min(cfg.max_operands.max(2));
            (n, gen_tower(&mut r, kind, n))
        } else {
            let n = pick_size(&mut r).min(cfg.max_operands);
            (n, gen_text(&mut r, kind, n))
        };
        let compile = !r.chance(1, 5);
        shared.push(SharedSpec { kind, form, text, n_operands, compile, tower });
    }
    let mut threads = Vec::new();
    for _ in 0..n_threads {
        let n_ops = r.range(1, cfg.max_ops);
        let mut ops = Vec::new();
        for _ in 0..n_ops {
            let j = r.below(n_shared);
            let small = shared[j].n_operands <= 40 || (shared[j].tower && r.chance(1, 4));
            let roll = r.below(w_eval + w_parse + w_other);
            let op = if roll < w_eval && r.chance(1, 6) {
                // mostly a few evaluations; now and then a hot expression: enough evaluations of one
                // shared instance that anything counting them crosses 255/256 within the run
                let k = if shared[j].n_operands <= 16 && r.chance(1, 5) { [90u8, 130, 200, 255][r.below(4)] } else { r.range(2, 4) as u8 };
                Op::EvalBurst { j, point: r.below(24) as u32, mode: r.below(4) as u8, k }
            } else if roll < w_eval {
                Op::Eval {
                    j,
                    point: r.below(24) as u32,
                    mode: r.below(4) as u8,
                    delta: match r.below(10) {
                        0 => -1,
                        1 => 1,
                        _ => 0,
                    },
                }
            } else if roll < w_eval + w_parse {
                if r.chance(1, 6) {
                    let n = r.range(1, 12).min(cfg.max_operands);
                    let text = gen_text(&mut r, Kind::F64, n);
                    // eval_str rejects variables; keep a few anyway (error path)
                    Op::EvalStr { text }
                } else {
                    let kind = pick_kind(&mut r);
                    let form = if r.chance(60, 100) { Form::Flat } else { Form::Deep };
                    let n = pick_size(&mut r).min(cfg.max_operands).min(140);
                    let mut text = gen_text(&mut r, kind, n);
                    let damaged = r.chance(15, 100);
                    if damaged {
                        text = damage(&mut r, &text);
                    }
                    // sometimes parse exactly the text of a shared expression (same text, many threads)
                    if r.chance(1, 5) {
                        let s = &shared[j];
                        Op::Parse { kind: s.kind, form, text: s.text.clone(), compile: true, damaged: false }
                    } else {
                        Op::Parse { kind, form, text, compile: !r.chance(1, 6), damaged }
                    }
                }
            } else {
                match r.below(20) {
                    0..=3 => Op::Inspect { j },
                    4..=7 if small => Op::Convert { j },
                    8..=13 if small => Op::Derive { j, which: r.below(256) as u32 },
                    14..=16 => Op::SerdeRoundTrip { j },
                    17 => Op::Drop { j },
                    _ => Op::Eval { j, point: r.below(24) as u32, mode: r.below(4) as u8, delta: 0 },
                }
            };
            ops.push(op);
        }
        threads.push(ops);
    }
    let mut faults = Vec::new();
    if cfg.with_faults {
        // make sure there is in-flight state for the fault to hit: an eval on the Sim expression
        let n_faults = r.range(1, 2);
        for _ in 0..n_faults {
            let tid = r.below(n_threads);
            let pos = r.below(threads[tid].len() + 1);
            let small0 = shared[0].n_operands <= 40;
            let op = match r.below(20) {
                0..=9 => Op::Eval { j: 0, point: r.below(24) as u32, mode: r.below(4) as u8, delta: 0 },
                10..=12 => Op::Parse {
                    kind: shared[0].kind,
                    form: if r.chance(1, 2) { Form::Flat } else { Form::Deep },
                    text: shared[0].text.clone(),
                    compile: true,
                    damaged: false,
                },
                13..=14 => Op::Inspect { j: 0 },
                15..=16 if small0 => Op::Derive { j: 0, which: r.below(256) as u32 },
                17..=18 if small0 => Op::Convert { j: 0 },
                19 => Op::SerdeRoundTrip { j: 0 },
                _ => Op::Eval { j: 0, point: r.below(24) as u32, mode: r.below(4) as u8, delta: 0 },
            };
            threads[tid].insert(pos, op);
            // earlier faults of this thread that sit behind the insertion point move by one
            for f in faults.iter_mut() {
                let f: &mut FaultSpec = f;
                if f.tid == tid && f.op as usize >= pos {
                    f.op += 1;
                }
            }
            let span = (2 * shared[0].n_operands).clamp(2, 60);
            faults.push(FaultSpec { tid, op: pos as u32, nth: r.range(1, span) as u32 });
        }
    }
    // dynamic sharing: in some runs one thread publishes expressions into a slot table over time
    // (parse -> publish -> unpublish -> publish the next ...) while the others evaluate whatever is
    // there: expressions are created by one thread, used by others and dropped by whoever comes last
    if n_threads >= 2 && !cfg.with_faults && r.chance(3, 10) {
        let n_slots = r.range(1, 2);
        let publisher = r.below(n_threads);
        for slot in 0..n_slots {
            let n_versions = r.range(2, 4);
            for version in 0..n_versions {
                let kind = pick_kind(&mut r);
                let form = if r.chance(1, 2) { Form::Flat } else { Form::Deep };
                let n = r.range(2, 14).min(cfg.max_operands);
                let text = gen_text(&mut r, kind, n);
                let pos = r.below(threads[publisher].len() + 1);
                // keep the versions of one slot in order: insert behind the previous publication
                let after = threads[publisher]
                    .iter()
                    .rposition(|op| matches!(op, Op::Publish { slot: s, .. } | Op::Unpublish { slot: s } if *s == slot))
                    .map(|p| p + 1)
                    .unwrap_or(0);
                let pos = pos.max(after);
                threads[publisher].insert(pos, Op::Publish { slot, version: version as u32, kind, form, text, compile: !r.chance(1, 6) });
                if r.chance(1, 2) {
                    let p2 = r.range(pos + 1, threads[publisher].len());
                    let p2 = p2.max(pos + 1);
                    threads[publisher].insert(p2, Op::Unpublish { slot });
                }
            }
        }
        for (tid, t) in threads.iter_mut().enumerate() {
            if tid == publisher {
                continue;
            }
            for _ in 0..r.range(2, 6) {
                let pos = r.below(t.len() + 1);
                t.insert(pos, Op::EvalSlot { slot: r.below(n_slots), point: r.below(24) as u32, mode: r.below(4) as u8 });
            }
        }
    }
    let main_keeps_handles = r.chance(1, 2) || cfg.with_faults;
    if !main_keeps_handles {
        for t in threads.iter_mut() {
            for j in 0..n_shared {
                if let Some(last) = t.iter().rposition(|op| op.shared_index() == Some(j)) {
                    if !matches!(t[last], Op::Drop { .. }) {
                        t.insert(last + 1, Op::Drop { j });
                    }
                } else {
                    let pos = r.below(t.len() + 1);
                    t.insert(pos, Op::Drop { j });
                }
            }
        }
    }
    Workload { shared, threads, faults, main_keeps_handles }
}

/// Threshold contention: two or three threads each evaluate the same small shared expression
/// well over a hundred times, so that whatever counts the evaluations of an instance (tiering,
/// statistics, a cache that changes representation after n uses) crosses its threshold while
/// other threads are inside evaluations of the same instance. The ordinary generator produces
/// such runs about once in a thousand; this shape is applied on top of an ordinary workload.
pub fn add_hot_contention(w: &mut Workload, seed: u64) -> bool {
    if w.shared.is_empty() || !w.faults.is_empty() || w.threads.len() < 2 {
        return false;
    }
    let mut r = Rng::new(seed);
    let j = (0..w.shared.len()).min_by_key(|j| w.shared[*j].n_operands).unwrap();
    if w.shared[j].n_operands > 16 {
        let n = r.range(2, 10);
        let kind = w.shared[j].kind;
        w.shared[j].text = gen_text(&mut r, kind, n);
        w.shared[j].n_operands = n;
        w.shared[j].tower = false;
    }
    let n_hot = r.range(2, w.threads.len().min(3));
    let first = r.below(w.threads.len());
    for i in 0..n_hot {
        let n_threads = w.threads.len();
        let t = &mut w.threads[(first + i) % n_threads];
        // not behind the thread's Drop of this handle
        let limit = t.iter().position(|op| matches!(op, Op::Drop { j: jj } if *jj == j)).unwrap_or(t.len());
        let pos = r.below(limit + 1);
        let k = [130u8, 200, 255][r.below(3)];
        t.insert(pos, Op::EvalBurst { j, point: r.below(24) as u32, mode: r.below(4) as u8, k });
    }
    true
}

// ---------------------------------------------------------------------------------------------
// first-use workloads (run as the first simulated run of a fresh process)
// ---------------------------------------------------------------------------------------------

const FIRST_TEXTS: [(Kind, &[&str]); 9] = [
    (Kind::F64, &["sin(x)+{y z}*2-cosy", "1+2*3", "PI*x^2"]),
    (Kind::F64b, &["dbl(x)<=2**3*pad05(y)", "x**2<y"]),
    (Kind::F32, &["cos(y)-3/z", "sqrt(2)*x"]),
    (Kind::Val, &["1 if x>0 else [1,2]", "to_float(k)+2.5+fact(15)", "x<=y&&true"]),
    (Kind::Bool, &["!p&&true||q", "p==q"]),
    (Kind::Sim, &["sq(x)**2<=3*TEN-incy", "x*y**2<=7"]),
    (Kind::Sim2, &["sq(x)**2<=3*TEN-incy", "x*y**2<=7"]),
    (Kind::Sim3, &["tw(x)&&1<<2|negy", "x<<2<y&&ONE"]),
    (Kind::Val64, &["fact(15)+x", "to_float(k)+2.5", "fact(x)<=y"]),
];

/// No shared expressions: 2-4 threads whose first operations parse the same small texts, one per
/// operator table, in the same order (sometimes rotated per thread), so that the first use of
/// anything that exists once per process or once per operator table is contended.
pub fn gen_firstuse_workload(seed: u64) -> Workload {
    let mut r = Rng::new(seed);
    if r.chance(1, 4) {
        // many operator tables at once: every thread parses small texts with 18-24 different
        // generated tables (in rotated orders), so that anything with a fixed number of slots per
        // operator table is filled, evicted and refilled while other threads look things up
        let n_threads = r.range(2, 4);
        let n_tables = r.range(18, 24);
        let mut threads = Vec::new();
        for t in 0..n_threads {
            let mut ops = Vec::new();
            let start = r.below(24);
            for i in 0..n_tables {
                let n = ((start + i * (1 + t % 2 * 6)) % 24) as u8;
                let text = gen_kind_text(&mut r, n, 3);
                ops.push(Op::Parse { kind: Kind::Gen(n), form: if i % 3 == 0 { Form::Deep } else { Form::Flat }, text, compile: true, damaged: false });
            }
            threads.push(ops);
        }
        return Workload { shared: Vec::new(), threads, faults: Vec::new(), main_keeps_handles: true };
    }
    let n_threads = r.range(2, 4);
    let rot = r.below(9);
    let per_thread_rot = r.chance(3, 10);
    let n_kinds = r.range(3, 9);
    let variant = r.below(3);
    let mut threads = Vec::new();
    for t in 0..n_threads {
        let mut ops = Vec::new();
        for i in 0..n_kinds {
            let idx = (rot + i + if per_thread_rot { t * 3 } else { 0 }) % 9;
            let (kind, texts) = FIRST_TEXTS[idx];
            let text = texts[variant % texts.len()].to_string();
            let form = if (i + rot) % 3 == 0 { Form::Deep } else { Form::Flat };
            ops.push(Op::Parse { kind, form, text, compile: true, damaged: false });
        }
        for _ in 0..r.below(3) {
            let kind = pick_kind(&mut r);
            let n = r.range(1, 12);
            let text = gen_text(&mut r, kind, n);
            ops.push(Op::Parse { kind, form: Form::Flat, text, compile: true, damaged: false });
        }
        threads.push(ops);
    }
    Workload { shared: Vec::new(), threads, faults: Vec::new(), main_keeps_handles: true }
}

//! Own PRNG so that a run is a pure function of (seed, code): splitmix64 for
//! seeding and derivation, xoshiro256** for the stream.

#[inline]
pub fn splitmix64(state: &mut u64) -> u64 {
    *state = state.wrapping_add(0x9E37_79B9_7F4A_7C15);
    let mut z = *state;
    z = (z ^ (z >> 30)).wrapping_mul(0xBF58_476D_1CE4_E5B9);
    z = (z ^ (z >> 27)).wrapping_mul(0x94D0_49BB_1331_11EB);
    z ^ (z >> 31)
}

/// Derives the seed of run `idx` (or of any sub-stream) from a batch seed.
pub fn derive(seed: u64, idx: u64) -> u64 {
    let mut s = seed ^ idx.wrapping_mul(0xD6E8_FEB8_6659_FD93).rotate_left(17);
    let a = splitmix64(&mut s);
    let b = splitmix64(&mut s);
    a ^ b.rotate_left(23)
}

#[derive(Clone, Debug)]
pub struct Rng {
    s: [u64; 4],
}

impl Rng {
    pub fn new(seed: u64) -> Self {
        let mut sm = seed;
        let s = [
            splitmix64(&mut sm),
            splitmix64(&mut sm),
            splitmix64(&mut sm),
            splitmix64(&mut sm),
        ];
        Rng { s }
    }
    #[inline]
    pub fn next_u64(&mut self) -> u64 {
        let result = self.s[1].wrapping_mul(5).rotate_left(7).wrapping_mul(9);
        let t = self.s[1] << 17;
        self.s[2] ^= self.s[0];
        self.s[3] ^= self.s[1];
        self.s[1] ^= self.s[2];
        self.s[0] ^= self.s[3];
        self.s[2] ^= t;
        self.s[3] = self.s[3].rotate_left(45);
        result
    }
    /// uniform in 0..n (n > 0); the tiny modulo bias is irrelevant here
    #[inline]
    pub fn below(&mut self, n: usize) -> usize {
        debug_assert!(n > 0);
        (self.next_u64() % (n as u64)) as usize
    }
    /// uniform in lo..=hi
    #[inline]
    pub fn range(&mut self, lo: usize, hi: usize) -> usize {
        lo + self.below(hi - lo + 1)
    }
    #[inline]
    pub fn chance(&mut self, num: u32, den: u32) -> bool {
        (self.next_u64() % den as u64) < num as u64
    }
    pub fn pick<'a, T>(&mut self, xs: &'a [T]) -> &'a T {
        &xs[self.below(xs.len())]
    }
    pub fn f64_unit(&mut self) -> f64 {
        (self.next_u64() >> 11) as f64 / (1u64 << 53) as f64
    }
}

/// FNV-1a, used for trace and observation digests.
#[derive(Clone, Copy, Debug)]
pub struct Fnv(pub u64);
impl Default for Fnv {
    fn default() -> Self {
        Fnv(0xcbf2_9ce4_8422_2325)
    }
}
impl Fnv {
    #[inline]
    pub fn byte(&mut self, b: u8) {
        self.0 ^= b as u64;
        self.0 = self.0.wrapping_mul(0x0000_0100_0000_01B3);
    }
    pub fn bytes(&mut self, bs: &[u8]) {
        for b in bs {
            self.byte(*b);
        }
    }
    pub fn u64(&mut self, x: u64) {
        self.bytes(&x.to_le_bytes());
    }
}

//! Plain-thread scenario runner: the same workload and oracles as engine N,
//! but with ordinary `std::thread`s and no baton. Engine M executes this
//! sub-command inside Miri, whose seeded scheduler preempts at arbitrary basic
//! blocks and whose race detector watches every access (including
//! `lazy_static`'s `Once` and the regex crate's cache pool). It can also be run
//! natively as a smoke test.

use crate::kinds::{Form, Handle, Kind};
use crate::prng::derive;
use crate::run::{self, Obs};
use crate::workload::{gen_workload, GenCfg, Op, Workload};
use std::sync::atomic::{AtomicU32, Ordering};
use std::sync::{Arc, OnceLock};

type Handles = Vec<Option<Arc<dyn Handle>>>;

fn arg<'a>(args: &'a [String], key: &str) -> Option<&'a str> {
    args.iter()
        .position(|a| a == key)
        .and_then(|i| args.get(i + 1))
        .map(|s| s.as_str())
}
fn arg_u64(args: &[String], key: &str, default: u64) -> u64 {
    arg(args, key).map(|v| v.parse().expect(key)).unwrap_or(default)
}

pub fn scenario(seed: u64, threads: usize, max_operands: usize, max_ops: usize, kinds: &[Kind]) -> Workload {
    let cfg = GenCfg { with_faults: false, max_operands, max_threads: threads, max_ops };
    let mut k = 0;
    let mut w = loop {
        let w = gen_workload(derive(seed, 100 + k), cfg);
        let kinds_ok = w.shared.iter().all(|s| kinds.contains(&s.kind))
            && w.threads.iter().flatten().all(|op| match op {
                Op::Parse { kind, .. } => kinds.contains(kind),
                _ => true,
            });
        if w.threads.len() == threads && kinds_ok {
            break w;
        }
        k += 1;
        if k > 10_000 {
            panic!("no scenario found for the requested shape");
        }
    };
    // every thread starts by parsing the same text: the first use of the
    // process-global regexes happens concurrently (function name followed by a
    // character => RE_VAR_NAME_EXACT, variable => RE_VAR_NAME)
    for t in w.threads.iter_mut() {
        t.insert(
            0,
            Op::Parse {
                kind: Kind::F64,
                form: Form::Flat,
                text: "sin(x)+{y z}*2-cosy".to_string(),
                compile: true,
                damaged: false,
            },
        );
        // and make sure every thread evaluates a shared expression at least once
        if !t.iter().any(|o| matches!(o, Op::Eval { .. })) {
            t.push(Op::Eval { j: 0, point: 3, mode: 0, delta: 0 });
        }
    }
    w
}

fn thread_body(tid: usize, w: &Workload, published: &OnceLock<Handles>, late: bool) -> Vec<Obs> {
    if late && tid == 0 {
        let _ = published.set(run::parse_shared(w));
    }
    let mut handles: Option<Handles> = None;
    let mut empty: Handles = Vec::new();
    let mut obs = Vec::new();
    for op in &w.threads[tid] {
        if op.shared_index().is_some() && handles.is_none() {
            loop {
                if let Some(h) = published.get() {
                    handles = Some(h.clone());
                    break;
                }
                std::thread::yield_now();
            }
        }
        let hs = handles.as_mut().unwrap_or(&mut empty);
        obs.push(run::guarded(op, hs));
    }
    obs
}

pub fn cmd_plain(args: &[String], yield_every: &AtomicU32) -> i32 {
    let seed = arg_u64(args, "--scenario-seed", 1);
    let threads = arg_u64(args, "--threads", 2) as usize;
    let max_operands = arg_u64(args, "--max-operands", 6) as usize;
    let max_ops = arg_u64(args, "--max-ops", 3) as usize;
    let late = arg_u64(args, "--late-publish", 1) != 0;
    let sequential = arg(args, "--mode") == Some("sequential");
    let kinds: Vec<Kind> = match arg(args, "--kinds") {
        None => crate::kinds::ALL_KINDS.to_vec(),
        Some(s) => s
            .split(',')
            .map(|k| match k {
                "F64" => Kind::F64,
                "F32" => Kind::F32,
                "Val" => Kind::Val,
                "Bool" => Kind::Bool,
                "Sim" => Kind::Sim,
                _ => panic!("unknown kind {k}"),
            })
            .collect(),
    };
    yield_every.store(arg_u64(args, "--yield-every", 0) as u32, Ordering::Relaxed);
    std::panic::set_hook(Box::new(|_| {}));
    let w = Arc::new(scenario(seed, threads, max_operands, max_ops, &kinds));
    if arg(args, "--print-workload").is_some() {
        println!("{}", serde_json::to_string(&*w).unwrap());
    }
    let published: Arc<OnceLock<Handles>> = Arc::new(OnceLock::new());
    if !late {
        let _ = published.set(run::parse_shared(&w));
    }
    let obs: Vec<Vec<Obs>> = if sequential {
        (0..w.threads.len())
            .map(|tid| thread_body(tid, &w, &published, late))
            .collect()
    } else {
        let joins: Vec<_> = (0..w.threads.len())
            .map(|tid| {
                let w = w.clone();
                let p = published.clone();
                std::thread::Builder::new()
                    .stack_size(4 << 20)
                    .spawn(move || thread_body(tid, &w, &p, late))
                    .unwrap()
            })
            .collect();
        joins.into_iter().map(|j| j.join().expect("thread body is panic-proof")).collect()
    };
    yield_every.store(0, Ordering::Relaxed);
    let reference = run::reference(&w);
    let mut bad = 0;
    for (t, ops) in w.threads.iter().enumerate() {
        for (i, op) in ops.iter().enumerate() {
            match &obs[t][i] {
                Obs::Done(got) if *got == reference[t][i] => {}
                other => {
                    bad += 1;
                    println!(
                        "MISMATCH oracle=O1 thread={t} op={i} kind={} op={op:?}\n  expected: {}\n  got:      {other:?}",
                        op.kind_name(),
                        reference[t][i]
                    );
                }
            }
        }
    }
    if let Some(hs) = published.get() {
        for (j, h) in hs.iter().enumerate() {
            if let Some(h) = h {
                if let Err(m) = h.unchanged() {
                    bad += 1;
                    println!("MISMATCH oracle=O2 shared[{j}] changed: {m}");
                }
            }
        }
    }
    let n_ops: usize = w.threads.iter().map(|t| t.len()).sum();
    println!(
        "PLAIN mode={} scenario_seed={seed} threads={} ops={n_ops} ref_digest={:016x} mismatches={bad}",
        if sequential { "sequential" } else { "concurrent" },
        w.threads.len(),
        run::digest_reference(&reference)
    );
    if bad > 0 {
        1
    } else {
        0
    }
}

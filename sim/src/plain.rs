//! Plain-thread scenario runner: the same workload and oracles as engine N,
//! but with ordinary `std::thread`s and no baton. Engine M executes this
//! sub-command inside Miri, whose seeded scheduler preempts at arbitrary basic
//! blocks and whose race detector watches every access (including
//! `lazy_static`'s `Once` and the regex crate's cache pool). It can also be run
//! natively as a smoke test.

use crate::kinds::{Form, Handle, Kind};
use crate::prng::derive;
use crate::run::{self, Obs};
use crate::workload::{gen_workload, GenCfg, Op, Workload};
use std::sync::atomic::{AtomicU32, AtomicUsize, Ordering};
use std::sync::{Arc, OnceLock};

type Handles = Vec<Option<Arc<dyn Handle>>>;

fn arg<'a>(args: &'a [String], key: &str) -> Option<&'a str> {
    args.iter()
        .position(|a| a == key)
        .and_then(|i| args.get(i + 1))
        .map(|s| s.as_str())
}
fn arg_u64(args: &[String], key: &str, default: u64) -> u64 {
    arg(args, key).map(|v| v.parse().expect(key)).unwrap_or(default)
}

pub fn scenario(seed: u64, threads: usize, max_operands: usize, max_ops: usize, kinds: &[Kind]) -> (Workload, usize) {
    let cfg = GenCfg { with_faults: false, max_operands, max_threads: threads, max_ops };
    let mut k = 0;
    let mut w = loop {
        let w = gen_workload(derive(seed, 100 + k), cfg);
        let kinds_ok = w.shared.iter().all(|s| kinds.contains(&s.kind))
            && w.threads.iter().flatten().all(|op| match op {
                Op::Parse { kind, .. } => kinds.contains(kind),
                _ => true,
            });
        if w.threads.len() == threads && kinds_ok {
            break w;
        }
        k += 1;
        if k > 10_000 {
            panic!("no scenario found for the requested shape");
        }
    };
    // Prelude: every thread parses the same small texts first, one per operator table in use
    // (and always one SimNum table: user-code seams). The threads meet at a
    // barrier before each of them, so that the first use of every process-global (the regexes of
    // the parser and of the literal matchers, and anything keyed by operator table) is a race.
    // "sin(x)..cosy": function name followed by a character => RE_VAR_NAME_EXACT, variable => RE_VAR_NAME.
    let mut prelude_kinds: Vec<Kind> = kinds.to_vec();
    for k in [Kind::Sim] {
        if !prelude_kinds.contains(&k) {
            prelude_kinds.push(k);
        }
    }
    // odd scenario seeds: every thread starts at another table, so that different tables are in use
    // at the same moment (anything that holds ONE table-specific entry gets replaced under readers)
    let rotate = seed % 2 == 1;
    for (tid, t) in w.threads.iter_mut().enumerate() {
        let mut order: Vec<Kind> = prelude_kinds.clone();
        if rotate {
            let n = order.len();
            order.rotate_left(tid % n);
        }
        for (i, k) in order.iter().enumerate() {
            let text = match k {
                Kind::F64 | Kind::F32 => "sin(x)+{y z}*2-cosy",
                Kind::F64b => "dbl(x)<=2**3*pad05(y)",
                Kind::Val | Kind::Val64 => "fact(15) if x>0 else [1,2]",
                Kind::Bool => "!p&&true||q",
                Kind::Sim | Kind::Sim2 => "sq(x)**2<=3*TEN-incy",
                Kind::Sim3 => "tw(x)&&1<<2|negy",
                Kind::Gen(_) => "x+1*2",
            };
            t.insert(
                i,
                Op::Parse { kind: *k, form: if i % 2 == 0 { Form::Flat } else { Form::Deep }, text: text.to_string(), compile: true, damaged: false },
            );
        }
    }
    let n_prelude = prelude_kinds.len();
    // at most two shared expressions (Miri time), ...
    if w.shared.len() > 2 {
        w.shared.truncate(2);
        for t in w.threads.iter_mut() {
            for op in t.iter_mut() {
                match op {
                    Op::Eval { j, .. }
                    | Op::Inspect { j }
                    | Op::Convert { j }
                    | Op::Derive { j, .. }
                    | Op::SerdeRoundTrip { j }
                    | Op::EvalBurst { j, .. }
                    | Op::Drop { j } => *j %= 2,
                    _ => {}
                }
            }
        }
    }
    // a deep and a flat shared expression are always present ...
    w.shared[0].form = Form::Deep;
    if w.shared.len() < 2 {
        let mut s = w.shared[0].clone();
        s.form = Form::Flat;
        w.shared.push(s);
    } else {
        w.shared[1].form = Form::Flat;
    }
    // value type in play: the flat shared expression is an array expression (dot/length/min over
    // array variables) and is evaluated at array points long enough to cross size thresholds, so
    // that the array operators of the value type run in several threads at once
    let val_kind = kinds.iter().copied().find(|k| matches!(k, Kind::Val | Kind::Val64));
    if let Some(vk) = val_kind {
        w.shared[1].kind = vk;
        w.shared[1].text = "(a dot b)+length(a-b)*2-((b dot b) min (a dot a))".to_string();
        w.shared[1].n_operands = 7;
        w.shared[1].compile = true;
        w.shared[1].tower = false;
    }
    // ... and every thread's first use of the shared expressions is an evaluation of each of
    // them, so that all threads race on the *first* evaluation (lazily initialised state, if any)
    let n_shared = w.shared.len();
    for (tid, t) in w.threads.iter_mut().enumerate() {
        for j in 0..n_shared {
            let point = if j == 1 && val_kind.is_some() { [19u32, 20, 22][tid % 3] } else { 3 + tid as u32 };
            t.insert(n_prelude + j, Op::Eval { j, point, mode: (tid % 2) as u8, delta: 0 });
        }
        // ... followed by an operation that clones, converts and drops (Convert) each
        // shared expression: reference counts or other per-clone bookkeeping, if any, are exercised
        // by all threads at once
        let base = n_prelude + n_shared;
        for j in 0..n_shared {
            t.insert(base + j, Op::Convert { j });
        }
    }
    // a value-typed shared expression always carries an error-valued constant (an owned message)
    for s in w.shared.iter_mut() {
        if s.kind == Kind::Val && !s.text.contains("fact(2.5)") {
            s.text = format!("({}) else fact(2.5)", s.text);
            s.n_operands += 1;
        }
    }
    (w, n_prelude)
}

/// Spin barrier (std::sync::Barrier would do; spinning with yield keeps Miri's scheduler busy
/// and needs no blocking primitive the scheduler could serialise on).
struct SpinBarrier {
    n: usize,
    arrived: Vec<AtomicUsize>,
}
impl SpinBarrier {
    fn wait(&self, round: usize) {
        self.arrived[round].fetch_add(1, Ordering::AcqRel);
        while self.arrived[round].load(Ordering::Acquire) < self.n {
            std::thread::yield_now();
        }
    }
}

fn thread_body(
    tid: usize,
    w: &Workload,
    published: &OnceLock<Handles>,
    late: bool,
    n_prelude: usize,
    barrier: Option<&SpinBarrier>,
) -> Vec<Obs> {
    let mut handles: Option<Handles> = None;
    let mut empty: Handles = Vec::new();
    let mut obs = Vec::new();
    for (i, op) in w.threads[tid].iter().enumerate() {
        if i <= n_prelude {
            if let Some(b) = barrier {
                b.wait(i);
            }
        }
        if i == n_prelude && late && tid == 0 {
            let _ = published.set(run::parse_shared(w));
        }
        if op.shared_index().is_some() && handles.is_none() {
            loop {
                if let Some(h) = published.get() {
                    handles = Some(h.clone());
                    break;
                }
                std::thread::yield_now();
            }
        }
        let hs = handles.as_mut().unwrap_or(&mut empty);
        obs.push(run::guarded(op, hs, &run::new_slots()));
    }
    obs
}

/// A later round of the same process: steady state (every global is initialised), new threads and
/// a *cheap* workload — tiny texts over the three 13-entry `SimNum` tables (no regex-heavy literal
/// matcher, few operators to build per parse), so that one round costs Miri seconds, not minutes.
/// The threads begin by parsing with different tables at the same moment (state that holds ONE
/// table-specific entry is replaced under readers), then evaluate, convert and re-parse one new
/// shared expression.
pub fn round_scenario(seed: u64, round: u64, threads: usize) -> (Workload, usize) {
    let mut r = crate::prng::Rng::new(derive(seed, 9000 + round));
    let pool = [Kind::Sim, Kind::Sim2, Kind::Sim3];
    let sk = pool[r.below(3)];
    let form = if r.chance(1, 2) { Form::Flat } else { Form::Deep };
    let n_operands = r.range(2, 4);
    let shared = vec![crate::workload::SharedSpec {
        kind: sk,
        form,
        text: crate::workload::gen_text(&mut r, sk, n_operands),
        n_operands,
        compile: r.chance(3, 4),
        tower: false,
    }];
    let n_parses = 4;
    let mut ths = Vec::new();
    for tid in 0..threads {
        let mut ops = Vec::new();
        for i in 0..n_parses {
            let kind = pool[(tid + i + round as usize) % 3];
            let n = r.range(1, 3);
            let text = crate::workload::gen_text(&mut r, kind, n);
            ops.push(Op::Parse { kind, form: if (i + tid) % 2 == 0 { Form::Flat } else { Form::Deep }, text, compile: true, damaged: false });
        }
        ops.push(Op::Eval { j: 0, point: 5 + tid as u32 + round as u32, mode: (tid % 4) as u8, delta: 0 });
        ops.push(Op::Convert { j: 0 });
        ops.push(Op::Eval { j: 0, point: 9 + round as u32, mode: ((tid + 1) % 4) as u8, delta: 0 });
        ops.push(Op::Parse { kind: sk, form, text: shared[0].text.clone(), compile: true, damaged: false });
        ths.push(ops);
    }
    (Workload { shared, threads: ths, faults: Vec::new(), main_keeps_handles: true }, n_parses)
}

fn run_round(
    w: Arc<Workload>,
    n_prelude: usize,
    late: bool,
    sequential: bool,
    label: &str,
) -> (usize, usize, u64) {
    let published: Arc<OnceLock<Handles>> = Arc::new(OnceLock::new());
    if !late {
        let _ = published.set(run::parse_shared(&w));
    }
    let obs: Vec<Vec<Obs>> = if sequential {
        (0..w.threads.len())
            .map(|tid| thread_body(tid, &w, &published, late, n_prelude, None))
            .collect()
    } else {
        let barrier = Arc::new(SpinBarrier {
            n: w.threads.len(),
            arrived: (0..n_prelude + 2).map(|_| AtomicUsize::new(0)).collect(),
        });
        let joins: Vec<_> = (0..w.threads.len())
            .map(|tid| {
                let w = w.clone();
                let p = published.clone();
                let barrier = barrier.clone();
                std::thread::Builder::new()
                    .stack_size(4 << 20)
                    .spawn(move || thread_body(tid, &w, &p, late, n_prelude, Some(&barrier)))
                    .unwrap()
            })
            .collect();
        joins.into_iter().map(|j| j.join().expect("thread body is panic-proof")).collect()
    };
    let reference = run::reference(&w);
    let mut bad = 0;
    for (t, ops) in w.threads.iter().enumerate() {
        for (i, op) in ops.iter().enumerate() {
            match &obs[t][i] {
                Obs::Done(got) if run::obs_matches(op, got, &reference[t][i]) => {}
                other => {
                    bad += 1;
                    println!(
                        "MISMATCH oracle=O1 {label} thread={t} op={i} kind={} op={op:?}\n  expected: {}\n  got:      {other:?}",
                        op.kind_name(),
                        reference[t][i]
                    );
                }
            }
        }
    }
    if let Some(hs) = published.get() {
        for (j, h) in hs.iter().enumerate() {
            if let Some(h) = h {
                if let Err(m) = h.unchanged() {
                    bad += 1;
                    println!("MISMATCH oracle=O2 {label} shared[{j}] changed: {m}");
                }
            }
        }
    }
    let n_ops: usize = w.threads.iter().map(|t| t.len()).sum();
    (bad, n_ops, run::digest_reference(&reference))
}

pub fn cmd_plain(args: &[String], yield_every: &AtomicU32) -> i32 {
    let seed = arg_u64(args, "--scenario-seed", 1);
    let threads = arg_u64(args, "--threads", 2) as usize;
    let max_operands = arg_u64(args, "--max-operands", 6) as usize;
    let max_ops = arg_u64(args, "--max-ops", 3) as usize;
    let rounds = arg_u64(args, "--rounds", 1);
    let late = arg_u64(args, "--late-publish", 1) != 0;
    let sequential = arg(args, "--mode") == Some("sequential");
    let kinds: Vec<Kind> = match arg(args, "--kinds") {
        None => crate::kinds::ALL_KINDS.to_vec(),
        Some(s) => s
            .split(',')
            .map(|k| crate::kinds::kind_from_name(k).unwrap_or_else(|| panic!("unknown kind {k}")))
            .collect(),
    };
    let ye = arg_u64(args, "--yield-every", 0) as u32;
    std::panic::set_hook(Box::new(|_| {}));
    if arg_u64(args, "--light", 1) != 0 {
        crate::kinds::LIGHT_OBS.store(true, Ordering::Relaxed);
    }
    let mut bad = 0;
    let mut n_ops = 0;
    let mut digest = crate::prng::Fnv::default();
    for round in 0..rounds.max(1) {
        let (w, n_prelude) = if round == 0 {
            scenario(seed, threads, max_operands, max_ops, &kinds)
        } else {
            round_scenario(seed, round, threads)
        };
        if arg(args, "--print-workload").is_some() {
            println!("{}", serde_json::to_string(&w).unwrap());
        }
        yield_every.store(ye, Ordering::Relaxed);
        let (b, n, d) = run_round(Arc::new(w), n_prelude, late || round > 0, sequential, &format!("round={round}"));
        yield_every.store(0, Ordering::Relaxed);
        bad += b;
        n_ops += n;
        digest.u64(d);
    }
    println!(
        "PLAIN mode={} scenario_seed={seed} threads={threads} ops={n_ops} ref_digest={:016x} mismatches={bad} rounds={}",
        if sequential { "sequential" } else { "concurrent" },
        digest.0,
        rounds.max(1)
    );
    if bad > 0 {
        1
    } else {
        0
    }
}

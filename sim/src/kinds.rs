//! Data types, operator tables and the type-erased expression handle that the
//! workload operates on. Everything here goes through exmex' public API only.

use crate::prng::{derive, Rng};
use crate::sched::{self, SEAM_CLONE, SEAM_DEBUG, SEAM_DEFAULT, SEAM_EQ, SEAM_FROMSTR, SEAM_OP, SEAM_SUBS};
use exmex::prelude::*;
use exmex::{
    literal_matcher_from_pattern, BinOp, DeepEx, DiffDataType, ExResult,
    FloatOpsFactory, MakeOperators, MatchLiteral, MissingOpMode, NumberMatcher, Operator, Val,
    ValMatcher, ValOpsFactory,
};
use serde::{Deserialize, Serialize};
use std::fmt::{self, Debug};
use std::str::FromStr;
use std::sync::Arc;

#[derive(Clone, Copy, Debug, Serialize, Deserialize, PartialEq, Eq, Hash)]
pub enum Kind {
    F64,
    F32,
    Val,
    Bool,
    Sim,
}
pub const ALL_KINDS: [Kind; 5] = [Kind::F64, Kind::F32, Kind::Val, Kind::Bool, Kind::Sim];

#[derive(Clone, Copy, Debug, Serialize, Deserialize, PartialEq, Eq, Hash)]
pub enum Form {
    Flat,
    Deep,
}

// ---------------------------------------------------------------------------------------------
// SimNum: an integer type whose Clone/Default/FromStr/Debug/PartialEq are scheduling points
// ---------------------------------------------------------------------------------------------

pub struct SimNum(pub i64);

impl Clone for SimNum {
    fn clone(&self) -> Self {
        sched::point(SEAM_CLONE);
        SimNum(self.0)
    }
}
impl Default for SimNum {
    fn default() -> Self {
        sched::point(SEAM_DEFAULT);
        SimNum(0)
    }
}
impl FromStr for SimNum {
    type Err = std::num::ParseIntError;
    fn from_str(s: &str) -> Result<Self, Self::Err> {
        sched::point(SEAM_FROMSTR);
        s.parse::<i64>().map(SimNum)
    }
}
impl Debug for SimNum {
    fn fmt(&self, f: &mut fmt::Formatter<'_>) -> fmt::Result {
        sched::point(SEAM_DEBUG);
        write!(f, "{}", self.0)
    }
}
impl PartialEq for SimNum {
    fn eq(&self, other: &Self) -> bool {
        sched::point(SEAM_EQ);
        self.0 == other.0
    }
}
impl From<f32> for SimNum {
    fn from(x: f32) -> Self {
        SimNum(x as i64)
    }
}
impl From<u8> for SimNum {
    fn from(x: u8) -> Self {
        SimNum(x as i64)
    }
}

fn s_add(a: SimNum, b: SimNum) -> SimNum {
    sched::point(SEAM_OP);
    SimNum(a.0.wrapping_add(b.0))
}
fn s_sub(a: SimNum, b: SimNum) -> SimNum {
    sched::point(SEAM_OP);
    SimNum(a.0.wrapping_sub(b.0))
}
fn s_mul(a: SimNum, b: SimNum) -> SimNum {
    sched::point(SEAM_OP);
    SimNum(a.0.wrapping_mul(b.0))
}
/// like the README's integer example: panics on division by zero
fn s_div(a: SimNum, b: SimNum) -> SimNum {
    sched::point(SEAM_OP);
    SimNum(a.0.wrapping_div(b.0))
}
fn s_rem(a: SimNum, b: SimNum) -> SimNum {
    sched::point(SEAM_OP);
    SimNum(a.0.wrapping_rem(b.0))
}
fn s_pow(a: SimNum, b: SimNum) -> SimNum {
    sched::point(SEAM_OP);
    SimNum(a.0.wrapping_pow((b.0 & 7) as u32))
}
fn s_min(a: SimNum, b: SimNum) -> SimNum {
    sched::point(SEAM_OP);
    SimNum(a.0.min(b.0))
}
fn s_max(a: SimNum, b: SimNum) -> SimNum {
    sched::point(SEAM_OP);
    SimNum(a.0.max(b.0))
}
fn s_neg(a: SimNum) -> SimNum {
    sched::point(SEAM_OP);
    SimNum(a.0.wrapping_neg())
}
fn s_id(a: SimNum) -> SimNum {
    sched::point(SEAM_OP);
    a
}
fn s_sq(a: SimNum) -> SimNum {
    sched::point(SEAM_OP);
    SimNum(a.0.wrapping_mul(a.0))
}
fn s_inc(a: SimNum) -> SimNum {
    sched::point(SEAM_OP);
    SimNum(a.0.wrapping_add(1))
}

#[derive(Clone, Debug, PartialEq)]
pub struct SimOps;
impl MakeOperators<SimNum> for SimOps {
    fn make<'a>() -> Vec<Operator<'a, SimNum>> {
        vec![
            Operator::make_bin("^", BinOp { apply: s_pow, prio: 4, is_commutative: false }),
            Operator::make_bin("*", BinOp { apply: s_mul, prio: 2, is_commutative: true }),
            Operator::make_bin("/", BinOp { apply: s_div, prio: 3, is_commutative: false }),
            Operator::make_bin("%", BinOp { apply: s_rem, prio: 3, is_commutative: false }),
            Operator::make_bin_unary("+", BinOp { apply: s_add, prio: 0, is_commutative: true }, s_id),
            Operator::make_bin_unary("-", BinOp { apply: s_sub, prio: 1, is_commutative: false }, s_neg),
            Operator::make_bin("min", BinOp { apply: s_min, prio: 0, is_commutative: false }),
            Operator::make_bin("max", BinOp { apply: s_max, prio: 0, is_commutative: false }),
            Operator::make_unary("sq", s_sq),
            Operator::make_unary("inc", s_inc),
            Operator::make_constant("TEN", SimNum(10)),
        ]
    }
}

// ---------------------------------------------------------------------------------------------
// B: booleans with a macro-generated literal matcher (its own process-global regex)
// ---------------------------------------------------------------------------------------------

#[derive(Clone, Copy, Debug, Default, PartialEq, Eq)]
pub struct B(pub bool);
impl FromStr for B {
    type Err = std::str::ParseBoolError;
    fn from_str(s: &str) -> Result<Self, Self::Err> {
        s.parse::<bool>().map(B)
    }
}
impl From<f32> for B {
    fn from(x: f32) -> Self {
        B(x != 0.0)
    }
}
impl From<u8> for B {
    fn from(x: u8) -> Self {
        B(x != 0)
    }
}
#[derive(Clone, Debug, PartialEq)]
pub struct BoolOps;
impl MakeOperators<B> for BoolOps {
    fn make<'a>() -> Vec<Operator<'a, B>> {
        vec![
            Operator::make_bin("&&", BinOp { apply: |a: B, b: B| B(a.0 && b.0), prio: 2, is_commutative: true }),
            Operator::make_bin("||", BinOp { apply: |a: B, b: B| B(a.0 || b.0), prio: 1, is_commutative: true }),
            Operator::make_bin("==", BinOp { apply: |a: B, b: B| B(a.0 == b.0), prio: 0, is_commutative: true }),
            Operator::make_bin("xor", BinOp { apply: |a: B, b: B| B(a.0 ^ b.0), prio: 0, is_commutative: false }),
            Operator::make_unary("!", |a: B| B(!a.0)),
            Operator::make_unary("id", |a: B| a),
        ]
    }
}
literal_matcher_from_pattern!(BoolMatcher, "^(true|false)");

// ---------------------------------------------------------------------------------------------
// Probe: what the harness needs to know about a data type
// ---------------------------------------------------------------------------------------------

pub trait Probe: DiffDataType + Send + Sync + 'static {
    type OF: MakeOperators<Self> + Debug + PartialEq + Send + Sync + 'static;
    type LM: MatchLiteral + Debug + PartialEq + Send + Sync + 'static;
    const UNARY: &'static [&'static str];
    const BINARY: &'static [&'static str];
    const SUBS: &'static [&'static str];
    fn palette(r: &mut Rng) -> Self;
    /// exact rendering (floats by bit pattern)
    fn show(&self) -> String;
}

const F_PALETTE: [f64; 16] = [
    0.0,
    -0.0,
    1.0,
    -1.0,
    0.5,
    2.0,
    3.0,
    10.0,
    1e300,
    -1e-300,
    f64::NAN,
    f64::INFINITY,
    f64::NEG_INFINITY,
    7.25,
    -2.5,
    0.1,
];
fn pal_f64(r: &mut Rng) -> f64 {
    if r.chance(1, 3) {
        (r.f64_unit() - 0.5) * 20.0
    } else {
        *r.pick(&F_PALETTE)
    }
}

impl Probe for f64 {
    type OF = FloatOpsFactory<f64>;
    type LM = NumberMatcher;
    const UNARY: &'static [&'static str] = &["sin", "-", "exp", "abs", "nosuchop"];
    const BINARY: &'static [&'static str] = &["+", "*", "/", "^", "min", "nosuchop"];
    const SUBS: &'static [&'static str] = &["2*q", "sin(x)+w", "1.5", "(a-b)/c"];
    fn palette(r: &mut Rng) -> Self {
        pal_f64(r)
    }
    fn show(&self) -> String {
        format!("{:016x}", self.to_bits())
    }
}
impl Probe for f32 {
    type OF = FloatOpsFactory<f32>;
    type LM = NumberMatcher;
    const UNARY: &'static [&'static str] = &["cos", "-", "sqrt", "signum"];
    const BINARY: &'static [&'static str] = &["-", "*", "/", "max"];
    const SUBS: &'static [&'static str] = &["q/2", "cos(y)", "3"];
    fn palette(r: &mut Rng) -> Self {
        pal_f64(r) as f32
    }
    fn show(&self) -> String {
        format!("{:08x}", self.to_bits())
    }
}
impl Probe for Val<i32, f64> {
    type OF = ValOpsFactory<i32, f64>;
    type LM = ValMatcher;
    const UNARY: &'static [&'static str] = &["-", "to_float", "abs", "fact", "!"];
    const BINARY: &'static [&'static str] = &["+", "*", "==", "if", "else", "%", "&&"];
    const SUBS: &'static [&'static str] = &["2*q", "1 if q > 0 else 2", "[1,2,3]", "true"];
    fn palette(r: &mut Rng) -> Self {
        match r.below(8) {
            0 | 1 => Val::Int([0, 1, -1, 2, 3, 7, 12, -40][r.below(8)]),
            2 | 3 | 4 => Val::Float(pal_f64(r)),
            5 => Val::Bool(r.chance(1, 2)),
            6 => Val::Array((0..r.range(0, 5)).map(|_| pal_f64(r)).collect()),
            _ => Val::Int(r.below(100) as i32 - 50),
        }
    }
    fn show(&self) -> String {
        match self {
            Val::Array(a) => format!(
                "A[{}]",
                a.iter().map(|x| x.show()).collect::<Vec<_>>().join(",")
            ),
            Val::Int(i) => format!("I{i}"),
            Val::Float(x) => format!("F{}", x.show()),
            Val::Bool(b) => format!("B{b}"),
            Val::Error(e) => format!("E({})", e.msg()),
            Val::None => "None".to_string(),
        }
    }
}
impl Probe for B {
    type OF = BoolOps;
    type LM = BoolMatcher;
    const UNARY: &'static [&'static str] = &["!", "id"];
    const BINARY: &'static [&'static str] = &["&&", "||", "==", "xor"];
    const SUBS: &'static [&'static str] = &["q||r", "!q", "true"];
    fn palette(r: &mut Rng) -> Self {
        B(r.chance(1, 2))
    }
    fn show(&self) -> String {
        format!("{}", self.0)
    }
}
impl Probe for SimNum {
    type OF = SimOps;
    type LM = NumberMatcher;
    const UNARY: &'static [&'static str] = &["-", "sq", "inc"];
    const BINARY: &'static [&'static str] = &["+", "*", "/", "%", "min"];
    const SUBS: &'static [&'static str] = &["2*q", "sq(q)-r", "7", "q/r"];
    fn palette(r: &mut Rng) -> Self {
        SimNum(match r.below(14) {
            0 => 0,
            1 => 4,
            2 => 1,
            3 => -1,
            4 => 2,
            5 => 3,
            6 => i64::MAX,
            7 => -5,
            _ => r.below(200) as i64 - 100,
        })
    }
    fn show(&self) -> String {
        format!("{}", self.0)
    }
}

// ---------------------------------------------------------------------------------------------
// Observations
// ---------------------------------------------------------------------------------------------

pub fn points<T: Probe>(n: usize, point: u32) -> Vec<T> {
    let mut r = Rng::new(derive(0x5EED_0F_70_1275, point as u64));
    (0..n).map(|_| T::palette(&mut r)).collect()
}

fn n_for(nvars: usize, delta: i8) -> usize {
    (nvars as i64 + delta as i64).max(0) as usize
}

pub fn show_res<T: Probe>(r: ExResult<T>) -> String {
    match r {
        Ok(v) => format!("ok:{}", v.show()),
        Err(e) => format!("err:{}", e.msg()),
    }
}

fn obs_expr<T, E>(r: ExResult<E>, point: u32) -> String
where
    T: Probe,
    <T as FromStr>::Err: Debug,
    E: Express<'static, T>,
{
    match r {
        Ok(e) => {
            let n = e.var_names().len();
            format!(
                "ok:{}|{:?}|{}",
                e.unparse(),
                e.var_names(),
                show_res(e.eval(&points::<T>(n, point)))
            )
        }
        Err(e) => format!("err:{}", e.msg()),
    }
}

fn inspect_generic<T, E>(e: &E) -> String
where
    T: Probe,
    <T as FromStr>::Err: Debug,
    E: Express<'static, T> + Debug + fmt::Display,
{
    format!(
        "unparse={}|vars={:?}|un={:?}|bin={:?}|ops={:?}|display={}|debug={:?}",
        e.unparse(),
        e.var_names(),
        e.unary_reprs(),
        e.binary_reprs(),
        e.operator_reprs(),
        e,
        e
    )
}

fn derive_generic<T, E>(e: &E, which: u32) -> String
where
    T: Probe,
    <T as FromStr>::Err: Debug,
    E: Express<'static, T> + Calculate<'static, T> + Differentiate<'static, T> + Clone + Debug,
{
    let sel = which % 8;
    let param = (which / 8) as usize;
    let nv = e.var_names().len();
    let var = if nv == 0 { param % 2 } else { param % (nv + 1) };
    let pt = 1000 + which;
    match sel {
        0 | 1 => obs_expr::<T, E>(e.clone().partial(var), pt),
        2 => obs_expr::<T, E>(e.clone().operate_unary(T::UNARY[param % T::UNARY.len()]), pt),
        3 => obs_expr::<T, E>(
            e.clone()
                .operate_binary(e.clone(), T::BINARY[param % T::BINARY.len()]),
            pt,
        ),
        4 => {
            let target = e.var_names().get(param % nv.max(1)).cloned();
            let sub_text: &'static str = T::SUBS[param % T::SUBS.len()];
            let mut f = |name: &str| -> Option<E> {
                sched::point(SEAM_SUBS);
                if Some(name) == target.as_deref() {
                    E::parse(sub_text).ok()
                } else {
                    None
                }
            };
            obs_expr::<T, E>(e.clone().subs(&mut f), pt)
        }
        5 => obs_expr::<T, E>(e.clone().partial_nth(var, 2), pt),
        6 => obs_expr::<T, E>(
            e.clone().partial_relaxed(var, MissingOpMode::PerOperand),
            pt,
        ),
        _ => obs_expr::<T, E>(
            e.clone()
                .partial_iter([var, param % (nv.max(1))].into_iter()),
            pt,
        ),
    }
}

/// Type-erased shared expression. All methods take `&self`: this is exactly
/// the surface C20 speaks about.
pub trait Handle: Send + Sync {
    fn eval(&self, point: u32, mode: u8, delta: i8) -> String;
    fn inspect(&self) -> String;
    fn convert(&self) -> String;
    fn derive(&self, which: u32) -> String;
    fn serde_rt(&self) -> String;
    /// full Debug rendering, the immutability witness
    fn snapshot(&self) -> String;
    /// compares with the retained pristine clone (PartialEq, if reflexive) and its rendering
    fn unchanged(&self) -> Result<(), String>;
}

pub struct FlatH<T: Probe>
where
    <T as FromStr>::Err: Debug,
{
    ex: FlatEx<T, T::OF, T::LM>,
    pristine: FlatEx<T, T::OF, T::LM>,
    snap: String,
    reflexive: bool,
}
pub struct DeepH<T: Probe>
where
    <T as FromStr>::Err: Debug,
{
    ex: DeepEx<'static, T, T::OF, T::LM>,
    pristine: DeepEx<'static, T, T::OF, T::LM>,
    snap: String,
    reflexive: bool,
}

impl<T: Probe> Handle for FlatH<T>
where
    <T as FromStr>::Err: Debug,
{
    fn eval(&self, point: u32, mode: u8, delta: i8) -> String {
        let n = n_for(self.ex.var_names().len(), delta);
        let vars = points::<T>(n, point);
        show_res(match mode % 4 {
            0 => self.ex.eval(&vars),
            1 => self.ex.eval_relaxed(&vars),
            2 => self.ex.eval_vec(vars),
            _ => self.ex.eval_iter(vars.into_iter()),
        })
    }
    fn inspect(&self) -> String {
        format!(
            "{}|ordered={:?}",
            inspect_generic::<T, _>(&self.ex),
            self.ex.var_indices_ordered()
        )
    }
    fn convert(&self) -> String {
        let nv = self.ex.var_names().len();
        match self.ex.clone().to_deepex() {
            Ok(d) => {
                let a = format!(
                    "deep:{}|{}",
                    d.unparse(),
                    show_res(d.eval(&points::<T>(nv, 77)))
                );
                let b = obs_expr::<T, _>(FlatEx::<T, T::OF, T::LM>::from_deepex(d), 77);
                format!("{a}|back:{b}")
            }
            Err(e) => format!("err:{}", e.msg()),
        }
    }
    fn derive(&self, which: u32) -> String {
        if which % 16 == 15 {
            // fold a clone again: FlatEx::compile(&mut self) on a copy must not touch the original
            let mut c = self.ex.clone();
            c.compile();
            return format!("recompiled:{:?}", c);
        }
        derive_generic::<T, _>(&self.ex, which)
    }
    fn serde_rt(&self) -> String {
        match serde_json::to_string(&self.ex) {
            Ok(s) => {
                let back = serde_json::from_str::<FlatEx<T, T::OF, T::LM>>(&s);
                match back {
                    Ok(e) => format!("json={s}|{}", obs_expr::<T, _>(Ok(e), 99)),
                    Err(e) => format!("json={s}|deerr:{e}"),
                }
            }
            Err(e) => format!("sererr:{e}"),
        }
    }
    fn snapshot(&self) -> String {
        format!("{:?}", self.ex)
    }
    fn unchanged(&self) -> Result<(), String> {
        let now = crate::run::canonical(&format!("{:?}", self.ex));
        if now != self.snap {
            return Err(format!("debug rendering changed: before={} after={}", self.snap, now));
        }
        if self.reflexive && self.ex != self.pristine {
            return Err("expression != its pristine clone (PartialEq)".to_string());
        }
        Ok(())
    }
}

impl<T: Probe> Handle for DeepH<T>
where
    <T as FromStr>::Err: Debug,
{
    fn eval(&self, point: u32, mode: u8, delta: i8) -> String {
        let n = n_for(self.ex.var_names().len(), delta);
        let vars = points::<T>(n, point);
        show_res(match mode % 2 {
            0 => self.ex.eval(&vars),
            _ => self.ex.eval_relaxed(&vars),
        })
    }
    fn inspect(&self) -> String {
        inspect_generic::<T, _>(&self.ex)
    }
    fn convert(&self) -> String {
        let nv = self.ex.var_names().len();
        match FlatEx::<T, T::OF, T::LM>::from_deepex(self.ex.clone()) {
            Ok(f) => {
                let a = format!(
                    "flat:{}|{}",
                    f.unparse(),
                    show_res(f.eval(&points::<T>(nv, 77)))
                );
                let b = obs_expr::<T, _>(f.to_deepex(), 77);
                format!("{a}|back:{b}")
            }
            Err(e) => format!("err:{}", e.msg()),
        }
    }
    fn derive(&self, which: u32) -> String {
        derive_generic::<T, _>(&self.ex, which)
    }
    fn serde_rt(&self) -> String {
        // serde is implemented for the flat form only; go through it
        match FlatEx::<T, T::OF, T::LM>::from_deepex(self.ex.clone()) {
            Ok(f) => match serde_json::to_string(&f) {
                Ok(s) => format!(
                    "json={s}|{}",
                    match serde_json::from_str::<FlatEx<T, T::OF, T::LM>>(&s) {
                        Ok(e) => obs_expr::<T, _>(Ok(e), 99),
                        Err(e) => format!("deerr:{e}"),
                    }
                ),
                Err(e) => format!("sererr:{e}"),
            },
            Err(e) => format!("err:{}", e.msg()),
        }
    }
    fn snapshot(&self) -> String {
        format!("{:?}", self.ex)
    }
    fn unchanged(&self) -> Result<(), String> {
        let now = crate::run::canonical(&format!("{:?}", self.ex));
        if now != self.snap {
            return Err(format!("debug rendering changed: before={} after={}", self.snap, now));
        }
        if self.reflexive && self.ex != self.pristine {
            return Err("expression != its pristine clone (PartialEq)".to_string());
        }
        Ok(())
    }
}

fn leak(text: &str) -> &'static str {
    Box::leak(text.to_string().into_boxed_str())
}

fn make_t<T: Probe>(form: Form, text: &str, compile: bool) -> Result<Arc<dyn Handle>, String>
where
    <T as FromStr>::Err: Debug,
{
    match form {
        Form::Flat => {
            let ex = if compile {
                FlatEx::<T, T::OF, T::LM>::parse(text)
            } else {
                FlatEx::<T, T::OF, T::LM>::parse_wo_compile(text)
            }
            .map_err(|e| e.msg().to_string())?;
            let pristine = ex.clone();
            let snap = crate::run::canonical(&format!("{ex:?}"));
            #[allow(clippy::eq_op)]
            let reflexive = pristine == pristine;
            Ok(Arc::new(FlatH::<T> { ex, pristine, snap, reflexive }))
        }
        Form::Deep => {
            let ex = DeepEx::<'static, T, T::OF, T::LM>::parse(leak(text))
                .map_err(|e| e.msg().to_string())?;
            let pristine = ex.clone();
            let snap = crate::run::canonical(&format!("{ex:?}"));
            #[allow(clippy::eq_op)]
            let reflexive = pristine == pristine;
            Ok(Arc::new(DeepH::<T> { ex, pristine, snap, reflexive }))
        }
    }
}

pub fn make_handle(kind: Kind, form: Form, text: &str, compile: bool) -> Result<Arc<dyn Handle>, String> {
    match kind {
        Kind::F64 => make_t::<f64>(form, text, compile),
        Kind::F32 => make_t::<f32>(form, text, compile),
        Kind::Val => make_t::<Val<i32, f64>>(form, text, compile),
        Kind::Bool => make_t::<B>(form, text, compile),
        Kind::Sim => make_t::<SimNum>(form, text, compile),
    }
}

pub fn eval_str_obs(text: &str) -> String {
    match exmex::eval_str::<f64>(text) {
        Ok(v) => format!("ok:{}", v.show()),
        Err(e) => format!("err:{}", e.msg()),
    }
}

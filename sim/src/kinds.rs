//! Data types, operator tables and the type-erased expression handle that the
//! workload operates on. Everything here goes through exmex' public API only.
//!
//! Several *kinds* share one data type but use different operator tables of
//! equal length (Sim/Sim2/Sim3 over `SimNum`, F64/F64b over `f64`): a process
//! that uses more than one table for one number type is a normal deployment,
//! and any process-global cache keyed too coarsely shows up as cross-talk.

use crate::prng::{derive, Rng};
use crate::sched::{self, SEAM_CLONE, SEAM_DEBUG, SEAM_DEFAULT, SEAM_DROP, SEAM_EQ, SEAM_FROMSTR, SEAM_OP, SEAM_SUBS};
use exmex::prelude::*;
use exmex::{
    literal_matcher_from_pattern, BinOp, DeepEx, DiffDataType, ExResult, FloatOpsFactory,
    MakeOperators, MatchLiteral, MissingOpMode, NumberMatcher, Operator, Val, ValMatcher,
    ValOpsFactory,
};
use serde::{Deserialize, Serialize};
use std::fmt::{self, Debug};
use std::str::FromStr;
use std::sync::{Arc, OnceLock};

#[derive(Clone, Copy, Debug, Serialize, Deserialize, PartialEq, Eq, Hash)]
pub enum Kind {
    F64,
    F32,
    Val,
    Bool,
    Sim,
    Sim2,
    Sim3,
    F64b,
    /// the value type with other integer and float widths: a second instantiation of every generic item
    Val64,
    /// one of 24 small generated operator tables over f64 (a process that uses MANY tables:
    /// anything with a fixed capacity per operator table overflows)
    Gen(u8),
}
pub const ALL_KINDS: [Kind; 9] = [
    Kind::F64,
    Kind::F32,
    Kind::Val,
    Kind::Bool,
    Kind::Sim,
    Kind::Sim2,
    Kind::Sim3,
    Kind::F64b,
    Kind::Val64,
];

pub const N_GEN: u8 = 24;

pub fn kind_from_name(k: &str) -> Option<Kind> {
    ALL_KINDS.iter().copied().find(|x| format!("{x:?}") == k)
}

const GEN_UNARY: [&str; 24] = [
    "ga", "gb", "gc", "gd", "ge", "gf", "gg", "gh", "gi", "gj", "gk", "gl", "gm", "gn", "go", "gp", "gq", "gr", "gs", "gt",
    "gu", "gv", "gw", "gx",
];
const GEN_CONST: [&str; 24] = [
    "KA", "KB", "KC", "KD", "KE", "KF", "KG", "KH", "KI", "KJ", "KK", "KL", "KM", "KN", "KO", "KP", "KQ", "KR", "KS", "KT",
    "KU", "KV", "KW", "KX",
];

/// Table number N: `+`, `*`, `-` (binary and unary), one unary function and one constant whose
/// names and meanings depend on N, and priorities that alternate with N.
#[derive(Clone, Debug, PartialEq)]
pub struct GenOps<const N: usize>;
impl<const N: usize> MakeOperators<f64> for GenOps<N> {
    fn make<'a>() -> Vec<Operator<'a, f64>> {
        let (p_add, p_mul) = if N % 2 == 0 { (1, 2) } else { (2, 1) };
        vec![
            Operator::make_bin_unary("+", BinOp { apply: |a, b| a + b, prio: p_add, is_commutative: true }, |a| a),
            Operator::make_bin("*", BinOp { apply: |a, b| a * b, prio: p_mul, is_commutative: true }),
            Operator::make_bin_unary("-", BinOp { apply: |a, b| a - b, prio: p_add, is_commutative: false }, |a: f64| -a),
            Operator::make_unary(GEN_UNARY[N % 24], |a: f64| a + N as f64),
            Operator::make_constant(GEN_CONST[N % 24], N as f64 + 0.5),
        ]
    }
}
pub struct KGen<const N: usize>;
impl<const N: usize> KindSpec for KGen<N> {
    type T = f64;
    type OF = GenOps<N>;
    type LM = NumberMatcher;
    const UNARY: &'static [&'static str] = &["-", "+"];
    const BINARY: &'static [&'static str] = &["+", "*", "-"];
    const SUBS: &'static [&'static str] = &["2*q", "q-r", "1.5"];
}

#[derive(Clone, Copy, Debug, Serialize, Deserialize, PartialEq, Eq, Hash)]
pub enum Form {
    Flat,
    Deep,
}

// ---------------------------------------------------------------------------------------------
// SimNum: an integer type whose Clone/Default/FromStr/Debug/PartialEq are scheduling points
// ---------------------------------------------------------------------------------------------

pub struct SimNum(pub i64);

impl Clone for SimNum {
    fn clone(&self) -> Self {
        sched::point(SEAM_CLONE);
        SimNum(self.0)
    }
}
impl Drop for SimNum {
    fn drop(&mut self) {
        // scheduling only; faults are never injected here (is_user_seam excludes it)
        sched::point(SEAM_DROP);
    }
}
impl Default for SimNum {
    fn default() -> Self {
        sched::point(SEAM_DEFAULT);
        SimNum(0)
    }
}
impl FromStr for SimNum {
    type Err = std::num::ParseIntError;
    fn from_str(s: &str) -> Result<Self, Self::Err> {
        sched::point(SEAM_FROMSTR);
        s.parse::<i64>().map(SimNum)
    }
}
impl Debug for SimNum {
    fn fmt(&self, f: &mut fmt::Formatter<'_>) -> fmt::Result {
        sched::point(SEAM_DEBUG);
        write!(f, "{}", self.0)
    }
}
impl PartialEq for SimNum {
    fn eq(&self, other: &Self) -> bool {
        sched::point(SEAM_EQ);
        self.0 == other.0
    }
}
impl From<f32> for SimNum {
    fn from(x: f32) -> Self {
        SimNum(x as i64)
    }
}
impl From<u8> for SimNum {
    fn from(x: u8) -> Self {
        SimNum(x as i64)
    }
}

macro_rules! sbin {
    ($name:ident, |$a:ident, $b:ident| $body:expr) => {
        fn $name($a: SimNum, $b: SimNum) -> SimNum {
            sched::point(SEAM_OP);
            let ($a, $b) = ($a.0, $b.0);
            SimNum($body)
        }
    };
}
macro_rules! sun {
    ($name:ident, |$a:ident| $body:expr) => {
        fn $name($a: SimNum) -> SimNum {
            sched::point(SEAM_OP);
            let $a = $a.0;
            SimNum($body)
        }
    };
}
sbin!(s_add, |a, b| a.wrapping_add(b));
sbin!(s_sub, |a, b| a.wrapping_sub(b));
sbin!(s_mul, |a, b| a.wrapping_mul(b));
// like the README's integer example: panics on division by zero
sbin!(s_div, |a, b| a.wrapping_div(b));
sbin!(s_rem, |a, b| a.wrapping_rem(b));
sbin!(s_pow, |a, b| a.wrapping_pow((b & 7) as u32));
sbin!(s_min, |a, b| a.min(b));
sbin!(s_max, |a, b| a.max(b));
sbin!(s_lt, |a, b| (a < b) as i64);
sbin!(s_le, |a, b| (a <= b) as i64);
sbin!(s_gt, |a, b| (a > b) as i64);
sbin!(s_eq, |a, b| (a == b) as i64);
sbin!(s_and, |a, b| a & b);
sbin!(s_land, |a, b| ((a != 0) && (b != 0)) as i64);
sbin!(s_or, |a, b| a | b);
sbin!(s_lor, |a, b| ((a != 0) || (b != 0)) as i64);
sbin!(s_shl, |a, b| a.wrapping_shl((b & 15) as u32));
sbin!(s_shr, |a, b| a.wrapping_shr((b & 15) as u32));
sbin!(s_avg, |a, b| (a / 2).wrapping_add(b / 2));
sun!(s_neg, |a| a.wrapping_neg());
sun!(s_id, |a| a);
sun!(s_sq, |a| a.wrapping_mul(a));
sun!(s_cube, |a| a.wrapping_mul(a).wrapping_mul(a));
sun!(s_inc, |a| a.wrapping_add(1));
sun!(s_inc2, |a| a.wrapping_add(2));
sun!(s_not, |a| !a);
sun!(s_tw, |a| a.wrapping_mul(2));

fn b(apply: fn(SimNum, SimNum) -> SimNum, prio: i64, is_commutative: bool) -> BinOp<SimNum> {
    BinOp { apply, prio, is_commutative }
}

/// 13 operators; `*`/`**` and `<`/`<=` are prefix related.
#[derive(Clone, Debug, PartialEq)]
pub struct SimOps;
impl MakeOperators<SimNum> for SimOps {
    fn make<'a>() -> Vec<Operator<'a, SimNum>> {
        vec![
            Operator::make_bin("**", b(s_pow, 4, false)),
            Operator::make_bin("*", b(s_mul, 2, true)),
            Operator::make_bin("/", b(s_div, 3, false)),
            Operator::make_bin("%", b(s_rem, 3, false)),
            Operator::make_bin_unary("+", b(s_add, 0, true), s_id),
            Operator::make_bin_unary("-", b(s_sub, 1, false), s_neg),
            Operator::make_bin("min", b(s_min, 0, false)),
            Operator::make_bin("max", b(s_max, 0, false)),
            Operator::make_unary("sq", s_sq),
            Operator::make_unary("inc", s_inc),
            Operator::make_constant("TEN", SimNum(10)),
            Operator::make_bin("<", b(s_lt, -1, false)),
            Operator::make_bin("<=", b(s_le, -1, false)),
        ]
    }
}

/// The same 13 representations as `SimOps` in another order with other
/// priorities and meanings.
#[derive(Clone, Debug, PartialEq)]
pub struct SimOps2;
impl MakeOperators<SimNum> for SimOps2 {
    fn make<'a>() -> Vec<Operator<'a, SimNum>> {
        vec![
            Operator::make_bin("<=", b(s_gt, 1, false)),
            Operator::make_constant("TEN", SimNum(7)),
            Operator::make_unary("inc", s_inc2),
            Operator::make_unary("sq", s_cube),
            Operator::make_bin("max", b(s_min, 2, false)),
            Operator::make_bin("min", b(s_avg, 2, false)),
            Operator::make_bin_unary("-", b(s_sub, 3, false), s_neg),
            Operator::make_bin_unary("+", b(s_add, 3, true), s_id),
            Operator::make_bin("%", b(s_rem, 5, false)),
            Operator::make_bin("/", b(s_div, 0, false)),
            Operator::make_bin("*", b(s_add, 5, true)),
            Operator::make_bin("**", b(s_mul, 0, true)),
            Operator::make_bin("<", b(s_le, 1, false)),
        ]
    }
}

/// Also 13 operators, other names, more prefix relations.
#[derive(Clone, Debug, PartialEq)]
pub struct SimOps3;
impl MakeOperators<SimNum> for SimOps3 {
    fn make<'a>() -> Vec<Operator<'a, SimNum>> {
        vec![
            Operator::make_bin("&", b(s_and, 3, true)),
            Operator::make_bin("&&", b(s_land, 1, true)),
            Operator::make_bin("|", b(s_or, 2, true)),
            Operator::make_bin("||", b(s_lor, 0, true)),
            Operator::make_bin("<<", b(s_shl, 4, false)),
            Operator::make_bin("<", b(s_lt, 1, false)),
            Operator::make_bin(">>", b(s_shr, 4, false)),
            Operator::make_bin(">", b(s_gt, 1, false)),
            Operator::make_bin("==", b(s_eq, 1, true)),
            Operator::make_unary("neg", s_neg),
            Operator::make_unary("tw", s_tw),
            Operator::make_unary("~", s_not),
            Operator::make_constant("ONE", SimNum(1)),
        ]
    }
}

// ---------------------------------------------------------------------------------------------
// a second operator table for f64 with exactly as many entries as the default one
// ---------------------------------------------------------------------------------------------

fn pad_names() -> &'static Vec<&'static str> {
    static NAMES: OnceLock<Vec<&'static str>> = OnceLock::new();
    NAMES.get_or_init(|| {
        (0..64)
            .map(|i| &*Box::leak(format!("pad{i:02}").into_boxed_str()))
            .collect()
    })
}

#[derive(Clone, Debug, PartialEq)]
pub struct F64Ops2;
impl MakeOperators<f64> for F64Ops2 {
    fn make<'a>() -> Vec<Operator<'a, f64>> {
        let mut v: Vec<Operator<'a, f64>> = vec![
            Operator::make_bin("<=", BinOp { apply: |a, b| (a <= b) as u8 as f64, prio: 0, is_commutative: false }),
            Operator::make_bin("**", BinOp { apply: |a: f64, b| a.powf(b), prio: 5, is_commutative: false }),
            Operator::make_bin("<", BinOp { apply: |a, b| (a < b) as u8 as f64, prio: 0, is_commutative: false }),
            Operator::make_bin("*", BinOp { apply: |a, b| a * b, prio: 3, is_commutative: true }),
            Operator::make_bin("/", BinOp { apply: |a, b| a / b, prio: 3, is_commutative: false }),
            Operator::make_bin_unary("+", BinOp { apply: |a, b| a + b, prio: 1, is_commutative: true }, |a| a),
            Operator::make_bin_unary("-", BinOp { apply: |a, b| a - b, prio: 1, is_commutative: false }, |a: f64| -a),
            Operator::make_bin("==", BinOp { apply: |a, b| (a == b) as u8 as f64, prio: 0, is_commutative: true }),
            Operator::make_unary("dbl", |a| a * 2.0),
            Operator::make_unary("half", |a| a / 2.0),
            Operator::make_constant("K", 1.5),
        ];
        let want = FloatOpsFactory::<f64>::make().len();
        let names = pad_names();
        let mut i = 0;
        while v.len() < want {
            v.push(Operator::make_unary(names[i % names.len()], |a| a));
            i += 1;
        }
        v
    }
}

// ---------------------------------------------------------------------------------------------
// B: booleans with a macro-generated literal matcher (its own process-global regex)
// ---------------------------------------------------------------------------------------------

#[derive(Clone, Copy, Debug, Default, PartialEq, Eq)]
pub struct B(pub bool);
impl FromStr for B {
    type Err = std::str::ParseBoolError;
    fn from_str(s: &str) -> Result<Self, Self::Err> {
        s.parse::<bool>().map(B)
    }
}
impl From<f32> for B {
    fn from(x: f32) -> Self {
        B(x != 0.0)
    }
}
impl From<u8> for B {
    fn from(x: u8) -> Self {
        B(x != 0)
    }
}
#[derive(Clone, Debug, PartialEq)]
pub struct BoolOps;
impl MakeOperators<B> for BoolOps {
    fn make<'a>() -> Vec<Operator<'a, B>> {
        vec![
            Operator::make_bin("&&", BinOp { apply: |a: B, b: B| B(a.0 && b.0), prio: 2, is_commutative: true }),
            Operator::make_bin("||", BinOp { apply: |a: B, b: B| B(a.0 || b.0), prio: 1, is_commutative: true }),
            Operator::make_bin("==", BinOp { apply: |a: B, b: B| B(a.0 == b.0), prio: 0, is_commutative: true }),
            Operator::make_bin("xor", BinOp { apply: |a: B, b: B| B(a.0 ^ b.0), prio: 0, is_commutative: false }),
            Operator::make_unary("!", |a: B| B(!a.0)),
            Operator::make_unary("id", |a: B| a),
        ]
    }
}
literal_matcher_from_pattern!(BoolMatcher, "^(true|false)");

// ---------------------------------------------------------------------------------------------
// Probe (per data type) and KindSpec (data type + operator table + literal matcher)
// ---------------------------------------------------------------------------------------------

pub trait Probe: DiffDataType + Send + Sync + 'static {
    fn palette(r: &mut Rng) -> Self;
    /// an array-valued sample of the given length, for data types that have arrays
    fn array(_r: &mut Rng, _len: usize) -> Option<Self> {
        None
    }
    /// exact rendering (floats by bit pattern)
    fn show(&self) -> String;
}

const F_PALETTE: [f64; 16] = [
    0.0,
    -0.0,
    1.0,
    -1.0,
    0.5,
    2.0,
    3.0,
    10.0,
    1e300,
    -1e-300,
    f64::NAN,
    f64::INFINITY,
    f64::NEG_INFINITY,
    7.25,
    -2.5,
    0.1,
];
fn pal_f64(r: &mut Rng) -> f64 {
    if r.chance(1, 3) {
        (r.f64_unit() - 0.5) * 20.0
    } else {
        *r.pick(&F_PALETTE)
    }
}

impl Probe for f64 {
    fn palette(r: &mut Rng) -> Self {
        pal_f64(r)
    }
    fn show(&self) -> String {
        format!("{:016x}", self.to_bits())
    }
}
impl Probe for f32 {
    fn palette(r: &mut Rng) -> Self {
        pal_f64(r) as f32
    }
    fn show(&self) -> String {
        format!("{:08x}", self.to_bits())
    }
}
fn pal_array(r: &mut Rng) -> Vec<f64> {
    // mostly short; sometimes long enough (>= 32) to reach code paths that treat long arrays differently
    let n = match r.below(6) {
        0 => 33,
        1 => 40,
        _ => r.range(0, 5),
    };
    (0..n).map(|_| pal_f64(r)).collect()
}
impl Probe for Val<i32, f64> {
    fn array(r: &mut Rng, len: usize) -> Option<Self> {
        Some(Val::Array((0..len).map(|_| (r.f64_unit() - 0.5) * 8.0).collect()))
    }
    fn palette(r: &mut Rng) -> Self {
        match r.below(9) {
            8 => {
                if r.chance(1, 2) {
                    Val::Error(exmex::ExError::new("probe error value"))
                } else {
                    Val::None
                }
            }
            0 | 1 => Val::Int([0, 1, -1, 2, 3, 7, 12, -40, 14, 19][r.below(10)]),
            2 | 3 | 4 => Val::Float(pal_f64(r)),
            5 => Val::Bool(r.chance(1, 2)),
            6 => Val::Array(pal_array(r).into_iter().collect()),
            _ => Val::Int(r.below(100) as i32 - 50),
        }
    }
    fn show(&self) -> String {
        match self {
            Val::Array(a) => format!(
                "A[{}]",
                a.iter().map(|x| x.show()).collect::<Vec<_>>().join(",")
            ),
            Val::Int(i) => format!("I{i}"),
            Val::Float(x) => format!("F{}", x.show()),
            Val::Bool(b) => format!("B{b}"),
            Val::Error(e) => format!("E({})", e.msg()),
            Val::None => "None".to_string(),
        }
    }
}
impl Probe for Val<i64, f32> {
    fn array(r: &mut Rng, len: usize) -> Option<Self> {
        Some(Val::Array((0..len).map(|_| ((r.f64_unit() - 0.5) * 8.0) as f32).collect()))
    }
    fn palette(r: &mut Rng) -> Self {
        match r.below(9) {
            8 => {
                if r.chance(1, 2) {
                    Val::Error(exmex::ExError::new("probe error value"))
                } else {
                    Val::None
                }
            }
            0 | 1 => Val::Int([0, 1, -1, 2, 3, 7, 12, -40, 14, 19][r.below(10)]),
            2 | 3 | 4 => Val::Float(pal_f64(r) as f32),
            5 => Val::Bool(r.chance(1, 2)),
            6 => Val::Array(pal_array(r).into_iter().map(|x| x as f32).collect()),
            _ => Val::Int(r.below(100) as i64 - 50),
        }
    }
    fn show(&self) -> String {
        match self {
            Val::Array(a) => format!(
                "A[{}]",
                a.iter().map(|x| x.show()).collect::<Vec<_>>().join(",")
            ),
            Val::Int(i) => format!("I{i}"),
            Val::Float(x) => format!("F{}", x.show()),
            Val::Bool(b) => format!("B{b}"),
            Val::Error(e) => format!("E({})", e.msg()),
            Val::None => "None".to_string(),
        }
    }
}
impl Probe for B {
    fn palette(r: &mut Rng) -> Self {
        B(r.chance(1, 2))
    }
    fn show(&self) -> String {
        format!("{}", self.0)
    }
}
impl Probe for SimNum {
    fn palette(r: &mut Rng) -> Self {
        SimNum(match r.below(14) {
            0 => 0,
            1 => 4,
            2 => 1,
            3 => -1,
            4 => 2,
            5 => 3,
            6 => i64::MAX,
            7 => -5,
            _ => r.below(200) as i64 - 100,
        })
    }
    fn show(&self) -> String {
        format!("{}", self.0)
    }
}

pub trait KindSpec: Send + Sync + 'static {
    type T: Probe;
    type OF: MakeOperators<Self::T> + Debug + PartialEq + Send + Sync + 'static;
    type LM: MatchLiteral + Debug + PartialEq + Send + Sync + 'static;
    const UNARY: &'static [&'static str];
    const BINARY: &'static [&'static str];
    const SUBS: &'static [&'static str];
}

pub struct KF64;
impl KindSpec for KF64 {
    type T = f64;
    type OF = FloatOpsFactory<f64>;
    type LM = NumberMatcher;
    const UNARY: &'static [&'static str] = &["sin", "-", "exp", "abs", "nosuchop"];
    const BINARY: &'static [&'static str] = &["+", "*", "/", "^", "min", "nosuchop"];
    const SUBS: &'static [&'static str] = &["2*q", "sin(x)+w", "1.5", "(a-b)/c"];
}
pub struct KF64b;
impl KindSpec for KF64b {
    type T = f64;
    type OF = F64Ops2;
    type LM = NumberMatcher;
    const UNARY: &'static [&'static str] = &["dbl", "-", "half", "pad03"];
    const BINARY: &'static [&'static str] = &["+", "*", "**", "<=", "<"];
    const SUBS: &'static [&'static str] = &["2*q", "dbl(x)<=w", "1.5", "a**b"];
}
pub struct KF32;
impl KindSpec for KF32 {
    type T = f32;
    type OF = FloatOpsFactory<f32>;
    type LM = NumberMatcher;
    const UNARY: &'static [&'static str] = &["cos", "-", "sqrt", "signum"];
    const BINARY: &'static [&'static str] = &["-", "*", "/", "max"];
    const SUBS: &'static [&'static str] = &["q/2", "cos(y)", "3"];
}
pub struct KVal;
impl KindSpec for KVal {
    type T = Val<i32, f64>;
    type OF = ValOpsFactory<i32, f64>;
    type LM = ValMatcher;
    const UNARY: &'static [&'static str] = &["-", "to_float", "abs", "fact", "!"];
    const BINARY: &'static [&'static str] = &["+", "*", "==", "if", "else", "%", "&&"];
    const SUBS: &'static [&'static str] = &["2*q", "1 if q > 0 else 2", "[1,2,3]", "true"];
}
pub struct KVal64;
impl KindSpec for KVal64 {
    type T = Val<i64, f32>;
    type OF = ValOpsFactory<i64, f32>;
    type LM = ValMatcher;
    const UNARY: &'static [&'static str] = &["-", "to_float", "abs", "fact", "!"];
    const BINARY: &'static [&'static str] = &["+", "*", "==", "if", "else", "%", "&&"];
    const SUBS: &'static [&'static str] = &["2*q", "1 if q > 0 else 2", "[1,2,3]", "true", "fact(15)"];
}
pub struct KBool;
impl KindSpec for KBool {
    type T = B;
    type OF = BoolOps;
    type LM = BoolMatcher;
    const UNARY: &'static [&'static str] = &["!", "id"];
    const BINARY: &'static [&'static str] = &["&&", "||", "==", "xor"];
    const SUBS: &'static [&'static str] = &["q||r", "!q", "true"];
}
pub struct KSim;
impl KindSpec for KSim {
    type T = SimNum;
    type OF = SimOps;
    type LM = NumberMatcher;
    const UNARY: &'static [&'static str] = &["-", "sq", "inc"];
    const BINARY: &'static [&'static str] = &["+", "*", "/", "%", "min", "**", "<="];
    const SUBS: &'static [&'static str] = &["2*q", "sq(q)-r", "7", "q/r", "q**2<=r"];
}
pub struct KSim2;
impl KindSpec for KSim2 {
    type T = SimNum;
    type OF = SimOps2;
    type LM = NumberMatcher;
    const UNARY: &'static [&'static str] = &["-", "sq", "inc"];
    const BINARY: &'static [&'static str] = &["+", "*", "/", "%", "min", "**", "<="];
    const SUBS: &'static [&'static str] = &["2*q", "sq(q)-r", "7", "q/r", "q**2<=r"];
}
pub struct KSim3;
impl KindSpec for KSim3 {
    type T = SimNum;
    type OF = SimOps3;
    type LM = NumberMatcher;
    const UNARY: &'static [&'static str] = &["neg", "tw", "~"];
    const BINARY: &'static [&'static str] = &["&", "&&", "|", "<<", "<", "=="];
    const SUBS: &'static [&'static str] = &["2<<q", "tw(q)&&r", "7", "q>>r|ONE"];
}

type Fx<K> = FlatEx<<K as KindSpec>::T, <K as KindSpec>::OF, <K as KindSpec>::LM>;
type Dx<K> = DeepEx<'static, <K as KindSpec>::T, <K as KindSpec>::OF, <K as KindSpec>::LM>;

// ---------------------------------------------------------------------------------------------
// Observations
// ---------------------------------------------------------------------------------------------

pub fn points<T: Probe>(n: usize, point: u32) -> Vec<T> {
    let mut r = Rng::new(derive(0x5EED_0F_70_1275, point as u64));
    if point % 24 >= 18 {
        // array points: every variable is an array of one common length (short, or long enough to
        // cross size thresholds in array code), for the data types that have arrays
        let len = [3usize, 33, 40, 3, 64, 33][(point % 6) as usize];
        if T::array(&mut r, 1).is_some() {
            return (0..n).map(|_| T::array(&mut r, len).unwrap()).collect();
        }
    }
    (0..n).map(|_| T::palette(&mut r)).collect()
}

fn n_for(nvars: usize, delta: i8) -> usize {
    (nvars as i64 + delta as i64).max(0) as usize
}

pub fn show_res<T: Probe>(r: ExResult<T>) -> String {
    match r {
        Ok(v) => format!("ok:{}", v.show()),
        Err(e) => format!("err:{}", e.msg()),
    }
}

fn obs_expr<T, E>(r: ExResult<E>, point: u32) -> String
where
    T: Probe,
    <T as FromStr>::Err: Debug,
    E: Express<'static, T>,
{
    match r {
        Ok(e) => {
            let n = e.var_names().len();
            format!(
                "ok:{}|{:?}|{}",
                e.unparse(),
                e.var_names(),
                show_res(e.eval(&points::<T>(n, point)))
            )
        }
        Err(e) => format!("err:{}", e.msg()),
    }
}

/// Set by the plain/Miri runner: leave the (long) `{:?}` rendering out of observations. Formatting
/// and canonicalising a few kilobytes per operation dominates the interpreter's time otherwise.
pub static LIGHT_OBS: std::sync::atomic::AtomicBool = std::sync::atomic::AtomicBool::new(false);

/// Everything the public accessors show. `with_debug` adds the `{:?}` rendering, which
/// exposes every field; it is only used where both sides of a comparison have the
/// same history (right after a parse), so that a semantically invisible cache
/// that happens to be visible in `Debug` cannot raise an alarm.
fn inspect_generic<T, E>(e: &E, with_debug: bool) -> String
where
    T: Probe,
    <T as FromStr>::Err: Debug,
    E: Express<'static, T> + Debug + fmt::Display,
{
    let mut s = format!(
        "unparse={}|vars={:?}|un={:?}|bin={:?}|ops={:?}|display={}",
        e.unparse(),
        e.var_names(),
        e.unary_reprs(),
        e.binary_reprs(),
        e.operator_reprs(),
        e,
    );
    if with_debug && !LIGHT_OBS.load(std::sync::atomic::Ordering::Relaxed) {
        s.push_str(&format!("|debug={e:?}"));
    }
    s
}

fn derive_generic<K, E>(e: &E, which: u32) -> String
where
    K: KindSpec,
    <K::T as FromStr>::Err: Debug,
    E: Express<'static, K::T> + Calculate<'static, K::T> + Differentiate<'static, K::T> + Clone + Debug,
{
    let sel = which % 8;
    let param = (which / 8) as usize;
    let nv = e.var_names().len();
    let var = if nv == 0 { param % 2 } else { param % (nv + 1) };
    let pt = 1000 + which;
    match sel {
        0 | 1 => obs_expr::<K::T, E>(e.clone().partial(var), pt),
        2 => obs_expr::<K::T, E>(e.clone().operate_unary(K::UNARY[param % K::UNARY.len()]), pt),
        3 => obs_expr::<K::T, E>(
            e.clone()
                .operate_binary(e.clone(), K::BINARY[param % K::BINARY.len()]),
            pt,
        ),
        4 => {
            let target = e.var_names().get(param % nv.max(1)).cloned();
            let sub_text: &'static str = K::SUBS[param % K::SUBS.len()];
            let mut f = |name: &str| -> Option<E> {
                sched::point(SEAM_SUBS);
                if Some(name) == target.as_deref() {
                    E::parse(sub_text).ok()
                } else {
                    None
                }
            };
            obs_expr::<K::T, E>(e.clone().subs(&mut f), pt)
        }
        5 => obs_expr::<K::T, E>(e.clone().partial_nth(var, 2), pt),
        6 => obs_expr::<K::T, E>(
            e.clone().partial_relaxed(var, MissingOpMode::PerOperand),
            pt,
        ),
        _ => obs_expr::<K::T, E>(
            e.clone()
                .partial_iter([var, param % (nv.max(1))].into_iter()),
            pt,
        ),
    }
}

/// Type-erased shared expression. All methods take `&self`: this is exactly
/// the surface C20 speaks about.
pub trait Handle: Send + Sync {
    fn eval(&self, point: u32, mode: u8, delta: i8) -> String;
    /// public accessors only (history independent for a correct implementation)
    fn inspect(&self) -> String;
    /// accessors + `{:?}`; only meaningful right after a parse
    fn inspect_full(&self) -> String;
    fn convert(&self) -> String;
    fn derive(&self, which: u32) -> String;
    fn serde_rt(&self) -> String;
    /// compares with the retained pristine clone (PartialEq, if reflexive) and the accessor rendering
    fn unchanged(&self) -> Result<(), String>;
}

pub struct FlatH<K: KindSpec>
where
    <K::T as FromStr>::Err: Debug,
{
    ex: Fx<K>,
    pristine: Fx<K>,
    snap: String,
    reflexive: bool,
}
pub struct DeepH<K: KindSpec>
where
    <K::T as FromStr>::Err: Debug,
{
    ex: Dx<K>,
    pristine: Dx<K>,
    snap: String,
    reflexive: bool,
}

fn eval_all_modes<K: KindSpec>(e: &Fx<K>, point: u32) -> String
where
    <K::T as FromStr>::Err: Debug,
{
    let n = e.var_names().len();
    let v = || points::<K::T>(n, point);
    format!(
        "eval={}|relaxed={}|vec={}|iter={}",
        show_res(e.eval(&v())),
        show_res(e.eval_relaxed(&v())),
        show_res(e.eval_vec(v())),
        show_res(e.eval_iter(v().into_iter()))
    )
}

impl<K: KindSpec> Handle for FlatH<K>
where
    <K::T as FromStr>::Err: Debug,
{
    fn eval(&self, point: u32, mode: u8, delta: i8) -> String {
        let n = n_for(self.ex.var_names().len(), delta);
        let vars = points::<K::T>(n, point);
        show_res(match mode % 4 {
            0 => self.ex.eval(&vars),
            1 => self.ex.eval_relaxed(&vars),
            2 => self.ex.eval_vec(vars),
            _ => self.ex.eval_iter(vars.into_iter()),
        })
    }
    fn inspect(&self) -> String {
        format!(
            "{}|ordered={:?}",
            inspect_generic::<K::T, _>(&self.ex, false),
            self.ex.var_indices_ordered()
        )
    }
    fn inspect_full(&self) -> String {
        format!(
            "{}|ordered={:?}",
            inspect_generic::<K::T, _>(&self.ex, true),
            self.ex.var_indices_ordered()
        )
    }
    fn convert(&self) -> String {
        let nv = self.ex.var_names().len();
        match self.ex.clone().to_deepex() {
            Ok(d) => {
                let a = format!(
                    "deep:{}|{}",
                    d.unparse(),
                    show_res(d.eval(&points::<K::T>(nv, 77)))
                );
                let b = obs_expr::<K::T, _>(Fx::<K>::from_deepex(d), 77);
                format!("{a}|back:{b}")
            }
            Err(e) => format!("err:{}", e.msg()),
        }
    }
    fn derive(&self, which: u32) -> String {
        if which % 16 >= 14 {
            // a history on a copy: clone -> (evaluate) -> compile() -> evaluate in every mode.
            // `FlatEx::compile(&mut self)` is public; folding a copy must neither touch the
            // original nor be confused by anything the original or the copy did before.
            let mut c = self.ex.clone();
            let pt = 2000 + which;
            let before = if which % 16 == 15 { eval_all_modes::<K>(&c, pt) } else { String::new() };
            c.compile();
            let head = format!(
                "recompiled:{}|before={before}|after={}|again={}",
                inspect_generic::<K::T, _>(&c, false),
                eval_all_modes::<K>(&c, pt),
                eval_all_modes::<K>(&c, pt + 1)
            );
            // ... and the compiled copy goes on to be converted, differentiated or extended, the way
            // `Calculate`/`Differentiate` consume `self`; none of this may reach the original
            let nv = c.var_names().len();
            let tail = match (which / 16) % 4 {
                0 => match c.to_deepex() {
                    Ok(d) => {
                        let a = format!("deep:{}|{}", d.unparse(), show_res(d.eval(&points::<K::T>(nv, pt))));
                        format!("{a}|{}", obs_expr::<K::T, _>(Fx::<K>::from_deepex(d), pt))
                    }
                    Err(e) => format!("err:{}", e.msg()),
                },
                1 => obs_expr::<K::T, _>(c.partial(0), pt),
                2 => obs_expr::<K::T, _>(c.operate_unary(K::UNARY[0]), pt),
                _ => String::new(),
            };
            return format!("{head}|then={tail}");
        }
        derive_generic::<K, _>(&self.ex, which)
    }
    fn serde_rt(&self) -> String {
        match serde_json::to_string(&self.ex) {
            Ok(s) => {
                let back = serde_json::from_str::<Fx<K>>(&s);
                match back {
                    Ok(e) => format!("json={s}|{}", obs_expr::<K::T, _>(Ok(e), 99)),
                    Err(e) => format!("json={s}|deerr:{e}"),
                }
            }
            Err(e) => format!("sererr:{e}"),
        }
    }
    fn unchanged(&self) -> Result<(), String> {
        let now = self.inspect();
        if now != self.snap {
            return Err(format!("public accessors changed: before={} after={}", self.snap, now));
        }
        if self.reflexive && self.ex != self.pristine {
            return Err(format!(
                "expression != its pristine clone (PartialEq); now={:?} pristine={:?}",
                self.ex, self.pristine
            ));
        }
        Ok(())
    }
}

impl<K: KindSpec> Handle for DeepH<K>
where
    <K::T as FromStr>::Err: Debug,
{
    fn eval(&self, point: u32, mode: u8, delta: i8) -> String {
        let n = n_for(self.ex.var_names().len(), delta);
        let vars = points::<K::T>(n, point);
        show_res(match mode % 2 {
            0 => self.ex.eval(&vars),
            _ => self.ex.eval_relaxed(&vars),
        })
    }
    fn inspect(&self) -> String {
        inspect_generic::<K::T, _>(&self.ex, false)
    }
    fn inspect_full(&self) -> String {
        inspect_generic::<K::T, _>(&self.ex, true)
    }
    fn convert(&self) -> String {
        let nv = self.ex.var_names().len();
        match Fx::<K>::from_deepex(self.ex.clone()) {
            Ok(f) => {
                let a = format!(
                    "flat:{}|{}|{}",
                    f.unparse(),
                    show_res(f.eval(&points::<K::T>(nv, 77))),
                    show_res(f.eval_vec(points::<K::T>(nv, 78)))
                );
                let b = obs_expr::<K::T, _>(f.to_deepex(), 77);
                format!("{a}|back:{b}")
            }
            Err(e) => format!("err:{}", e.msg()),
        }
    }
    fn derive(&self, which: u32) -> String {
        derive_generic::<K, _>(&self.ex, which)
    }
    fn serde_rt(&self) -> String {
        // serde is implemented for the flat form only; go through it
        match Fx::<K>::from_deepex(self.ex.clone()) {
            Ok(f) => match serde_json::to_string(&f) {
                Ok(s) => format!(
                    "json={s}|{}",
                    match serde_json::from_str::<Fx<K>>(&s) {
                        Ok(e) => obs_expr::<K::T, _>(Ok(e), 99),
                        Err(e) => format!("deerr:{e}"),
                    }
                ),
                Err(e) => format!("sererr:{e}"),
            },
            Err(e) => format!("err:{}", e.msg()),
        }
    }
    fn unchanged(&self) -> Result<(), String> {
        let now = self.inspect();
        if now != self.snap {
            return Err(format!("public accessors changed: before={} after={}", self.snap, now));
        }
        if self.reflexive && self.ex != self.pristine {
            return Err(format!(
                "expression != its pristine clone (PartialEq); now={:?} pristine={:?}",
                self.ex, self.pristine
            ));
        }
        Ok(())
    }
}

fn leak(text: &str) -> &'static str {
    Box::leak(text.to_string().into_boxed_str())
}

fn make_k<K: KindSpec>(form: Form, text: &str, compile: bool) -> Result<Arc<dyn Handle>, String>
where
    <K::T as FromStr>::Err: Debug,
{
    match form {
        Form::Flat => {
            let ex = if compile {
                Fx::<K>::parse(text)
            } else {
                Fx::<K>::parse_wo_compile(text)
            }
            .map_err(|e| e.msg().to_string())?;
            let pristine = ex.clone();
            #[allow(clippy::eq_op)]
            let reflexive = pristine == pristine;
            let mut h = FlatH::<K> { ex, pristine, snap: String::new(), reflexive };
            h.snap = h.inspect();
            Ok(Arc::new(h))
        }
        Form::Deep => {
            let ex = Dx::<K>::parse(leak(text)).map_err(|e| e.msg().to_string())?;
            let pristine = ex.clone();
            #[allow(clippy::eq_op)]
            let reflexive = pristine == pristine;
            let mut h = DeepH::<K> { ex, pristine, snap: String::new(), reflexive };
            h.snap = h.inspect();
            Ok(Arc::new(h))
        }
    }
}

pub fn make_handle(kind: Kind, form: Form, text: &str, compile: bool) -> Result<Arc<dyn Handle>, String> {
    match kind {
        Kind::F64 => make_k::<KF64>(form, text, compile),
        Kind::F64b => make_k::<KF64b>(form, text, compile),
        Kind::F32 => make_k::<KF32>(form, text, compile),
        Kind::Val => make_k::<KVal>(form, text, compile),
        Kind::Val64 => make_k::<KVal64>(form, text, compile),
        Kind::Bool => make_k::<KBool>(form, text, compile),
        Kind::Sim => make_k::<KSim>(form, text, compile),
        Kind::Sim2 => make_k::<KSim2>(form, text, compile),
        Kind::Sim3 => make_k::<KSim3>(form, text, compile),
        Kind::Gen(n) => {
            macro_rules! gen_dispatch {
                ($($i:literal),*) => {
                    match n % N_GEN {
                        $($i => make_k::<KGen<$i>>(form, text, compile),)*
                        _ => unreachable!(),
                    }
                };
            }
            gen_dispatch!(0, 1, 2, 3, 4, 5, 6, 7, 8, 9, 10, 11, 12, 13, 14, 15, 16, 17, 18, 19, 20, 21, 22, 23)
        }
    }
}

pub fn eval_str_obs(text: &str) -> String {
    match exmex::eval_str::<f64>(text) {
        Ok(v) => format!("ok:{}", v.show()),
        Err(e) => format!("err:{}", e.msg()),
    }
}

/// Initialises exmex' own four process-global regexes (two in the tokenizer, the matchers of
/// `Val` and of the macro-generated boolean matcher) through an operator table that nothing
/// else uses, so that per-table, per-type or per-text first-use state of the kinds under test
/// stays untouched. Used by fresh-process first-use runs: with allocator scheduling points on,
/// a simulated thread must not be parked inside a `Once` initialiser (the regex compilation).
pub fn warm_exmex_globals() {
    #[derive(Clone, Debug, PartialEq)]
    struct WarmOps;
    impl MakeOperators<f64> for WarmOps {
        fn make<'a>() -> Vec<Operator<'a, f64>> {
            vec![
                Operator::make_bin("+", BinOp { apply: |a, b| a + b, prio: 0, is_commutative: true }),
                Operator::make_unary("zin", |a: f64| a.sin()),
            ]
        }
    }
    let _ = FlatEx::<f64, WarmOps, NumberMatcher>::parse("zin(x)+ziny+1");
    let _ = ValMatcher::is_literal("1");
    let _ = BoolMatcher::is_literal("true");
    let _ = pad_names(); // the harness' own OnceLock
}

//! exmex-sim: deterministic simulation harness for property C20.
//!
//! Sub-commands
//!   native   run a batch of seeded simulated runs under the baton scheduler (engine N)
//!   replay   re-execute a replay file strictly
//!   refdigest  sequential-only process: reference digests for a range of runs
//!   plain    run one generated scenario with plain std threads (engine M runs this under Miri)
//!   show     print the workload of one run index

mod kinds;
mod minimise;
mod plain;
mod prng;
mod run;
mod sched;
mod workload;

use minimise::{minimise, size_of, ReplayFile};
use prng::derive;
use run::{digest_reference, execute, ExecCfg, ExecResult, Obs, Outcome};
use sched::{site_name, PolicyKind, Source, ALL_POLICIES, N_SITE_IDS};
use serde::Serialize;
use std::collections::{BTreeMap, HashSet};
use std::io::Write;
use std::sync::atomic::{AtomicBool, AtomicU32, AtomicU64, Ordering};
use std::sync::{Arc, Mutex};
use std::time::Instant;
use workload::{gen_workload, GenCfg, Workload};

static YIELD_EVERY: AtomicU32 = AtomicU32::new(0);
thread_local! {
    static SEAM_CTR: std::cell::Cell<u32> = const { std::cell::Cell::new(0) };
}

/// What a scheduling point does on a thread that is not attached to the baton
/// scheduler: nothing, or (plain/Miri mode) an occasional `yield_now`.
pub fn miri_yield(_site: u8) {
    let k = YIELD_EVERY.load(Ordering::Relaxed);
    if k != 0 {
        let c = SEAM_CTR.with(|c| {
            let v = c.get().wrapping_add(1);
            c.set(v);
            v
        });
        if c % k == 0 {
            std::thread::yield_now();
        }
    }
}

fn arg<'a>(args: &'a [String], key: &str) -> Option<&'a str> {
    args.iter()
        .position(|a| a == key)
        .and_then(|i| args.get(i + 1))
        .map(|s| s.as_str())
}
fn arg_u64(args: &[String], key: &str, default: u64) -> u64 {
    arg(args, key).map(|v| v.parse().expect(key)).unwrap_or(default)
}

#[cfg(exmex_verif)]
mod alloc_seam {
    //! The process' global allocator is a seam every Rust binary owns: in the hooks-on build each
    //! allocation made by a simulated thread can be a scheduling point (see sched::alloc_point).
    use std::alloc::{GlobalAlloc, Layout, System};
    pub struct SimAlloc;
    unsafe impl GlobalAlloc for SimAlloc {
        unsafe fn alloc(&self, l: Layout) -> *mut u8 {
            let _ = crate::sched::LAST_ALLOC.try_with(|c| c.set(l.size()));
            crate::sched::alloc_point();
            System.alloc(l)
        }
        unsafe fn alloc_zeroed(&self, l: Layout) -> *mut u8 {
            crate::sched::alloc_point();
            System.alloc_zeroed(l)
        }
        unsafe fn realloc(&self, p: *mut u8, l: Layout, n: usize) -> *mut u8 {
            let _ = crate::sched::LAST_ALLOC.try_with(|c| c.set(1_000_000_000 + n));
            crate::sched::alloc_point();
            System.realloc(p, l, n)
        }
        unsafe fn dealloc(&self, p: *mut u8, l: Layout) {
            System.dealloc(p, l)
        }
    }
    #[global_allocator]
    static GLOBAL: SimAlloc = SimAlloc;
}

#[cfg(sim_bb)]
mod bb_seam {
    //! SanitizerCoverage callbacks. In the `sim_bb` build every crate (exmex, its dependencies, the
    //! generic std code instantiated in them, this harness) is compiled with
    //! `-Cpasses=sancov-module` + trace-pc-guard + trace-loads + trace-stores, so LLVM inserts a call
    //! to one of these functions at every basic-block edge and before every load and store. LLVM
    //! does not instrument functions whose names start with `__sanitizer_`, and everything they do
    //! on the fast path is inlined thread-local access.
    use crate::sched::{bb_point, SEAM_BB, SEAM_MEM};
    #[inline(always)]
    fn ret_addr() -> u64 {
        let ra: u64;
        unsafe { std::arch::asm!("mov {0}, [rbp+8]", out(reg) ra, options(nostack, readonly)) };
        ra
    }
    #[no_mangle]
    #[inline(never)]
    pub extern "C" fn __sanitizer_cov_trace_pc_guard(g: *mut u32) {
        bb_point(SEAM_BB, ret_addr(), g);
    }
    /// every guard starts as 1 = "this basic block has not been executed in this process"
    #[no_mangle]
    pub extern "C" fn __sanitizer_cov_trace_pc_guard_init(a: *mut u32, b: *mut u32) {
        let mut p = a;
        while p < b {
            unsafe {
                std::ptr::write_volatile(p, 1);
                p = p.add(1);
            }
        }
    }
    macro_rules! mem_cb {
        ($($name:ident),*) => { $(
            #[no_mangle]
            #[inline(never)]
            pub extern "C" fn $name(_p: *const u8) {
                bb_point(SEAM_MEM, ret_addr() | (1 << 63), std::ptr::null_mut());
            }
        )* };
    }
    mem_cb!(
        __sanitizer_cov_load1, __sanitizer_cov_load2, __sanitizer_cov_load4, __sanitizer_cov_load8, __sanitizer_cov_load16,
        __sanitizer_cov_store1, __sanitizer_cov_store2, __sanitizer_cov_store4, __sanitizer_cov_store8, __sanitizer_cov_store16
    );
}

pub struct RunPlan {
    pub alloc_every: u32,
    pub run_seed: u64,
    pub fault_run: bool,
    pub workload: Workload,
    pub policy: PolicyKind,
    pub sched_seed: u64,
}

pub fn plan_run(batch_seed: u64, index: u64) -> RunPlan {
    let run_seed = derive(batch_seed, index);
    let fault_run = index % 3 == 2;
    let workload = gen_workload(derive(run_seed, 1), GenCfg::native(fault_run));
    let policy = ALL_POLICIES[(derive(run_seed, 2) % ALL_POLICIES.len() as u64) as usize];
    // allocator scheduling points are only used in fresh-process runs (see cmd_fresh): what the regex
    // cache pool has allocated before depends on the history of the process, and an in-process run
    // has to replay exactly in a new process
    let alloc_every = 0;
    RunPlan { alloc_every, run_seed, fault_run, workload, policy, sched_seed: derive(run_seed, 3) }
}

fn rle(s: &[u8]) -> String {
    let mut out = String::new();
    let mut i = 0;
    while i < s.len() {
        let mut k = i;
        while k < s.len() && s[k] == s[i] {
            k += 1;
        }
        if !out.is_empty() {
            out.push(' ');
        }
        out.push_str(&format!("T{}x{}", s[i], k - i));
        i = k;
    }
    out
}

#[derive(Default, Serialize)]
struct Stats {
    runs: u64,
    runs_fault_free: u64,
    runs_fault_injecting: u64,
    runs_multithreaded: u64,
    runs_nontrivial: u64,
    steps_total: u64,
    decisions_total: u64,
    ops_total: u64,
    threads_hist: [u64; 5],
    policy_hist: BTreeMap<String, u64>,
    site_hits: BTreeMap<String, u64>,
    switch_at: BTreeMap<String, u64>,
    switches_inner: u64,
    switches_boundary: u64,
    probe_switch_inside_shared_eval: u64,
    probe_switch_in_evalstep_of_gt64_operand_expr: u64,
    probe_switch_between_node_load_and_reduce: u64,
    probe_switch_at_regex_use: u64,
    probe_switch_in_error_path_of_damaged_parse: u64,
    probe_panic_unwound_through_eval: u64,
    probe_natural_panic_in_reference: u64,
    probe_error_observations: u64,
    faults_planned: u64,
    faults_fired: u64,
    faults_fired_by_seam: BTreeMap<String, u64>,
    stall_policy_runs: u64,
    drop_ops: u64,
    ext_block_events: u64,
    step_capped_runs: u64,
    max_steps_in_a_run: u64,
    max_ctx_switches_in_a_run: u64,
    samples: Vec<serde_json::Value>,
    ref_digests: Vec<(u64, u64)>,
    wall_s: f64,
    violation: Option<serde_json::Value>,
    harness_error: Option<String>,
    hooks_installed: bool,
}

fn site_vec_add(m: &mut BTreeMap<String, u64>, v: &[u64]) {
    for (i, c) in v.iter().enumerate().take(N_SITE_IDS) {
        if *c > 0 {
            *m.entry(site_name(i as u8).to_string()).or_insert(0) += *c;
        }
    }
}

fn account(st: &mut Stats, plan: &RunPlan, out: &Outcome, digests: &mut HashSet<u64>, index: u64) {
    let r = &out.report;
    st.runs += 1;
    if plan.fault_run {
        st.runs_fault_injecting += 1;
    } else {
        st.runs_fault_free += 1;
    }
    let nt = plan.workload.threads.len();
    st.threads_hist[nt.min(4)] += 1;
    if nt >= 2 {
        st.runs_multithreaded += 1;
    }
    if nt >= 2 && r.switches_inner >= 1 {
        st.runs_nontrivial += 1;
        digests.insert(r.trace_digest);
    }
    st.steps_total += r.steps;
    st.decisions_total += r.decisions;
    st.ops_total += plan.workload.n_ops() as u64;
    *st.policy_hist.entry(format!("{:?}", plan.policy)).or_insert(0) += 1;
    site_vec_add(&mut st.site_hits, &r.site_hits);
    site_vec_add(&mut st.switch_at, &r.switch_at);
    st.switches_inner += r.switches_inner;
    st.switches_boundary += r.switches_boundary;
    st.probe_switch_inside_shared_eval += r.sw_in_shared_eval;
    st.probe_switch_in_evalstep_of_gt64_operand_expr += r.sw_in_big_evalstep;
    st.probe_switch_between_node_load_and_reduce += r.sw_at_load;
    st.probe_switch_at_regex_use += r.sw_at_regex;
    st.probe_switch_in_error_path_of_damaged_parse += r.sw_in_errpath;
    st.faults_planned += plan.workload.faults.len() as u64;
    st.faults_fired += r.faults_fired.len() as u64;
    for (_, site) in &r.faults_fired {
        *st.faults_fired_by_seam.entry(site_name(*site).to_string()).or_insert(0) += 1;
    }
    for t in &out.obs {
        for o in t {
            if let Obs::Victim(_) = o {
                st.probe_panic_unwound_through_eval += 1;
            }
        }
    }
    for t in &out.reference {
        for o in t {
            if o.starts_with("panic:") {
                st.probe_natural_panic_in_reference += 1;
            } else if o.starts_with("err:") {
                st.probe_error_observations += 1;
            }
        }
    }
    if (plan.policy == PolicyKind::Pct || plan.policy == PolicyKind::Stall) && nt >= 2 {
        st.stall_policy_runs += 1;
    }
    st.drop_ops += plan
        .workload
        .threads
        .iter()
        .flatten()
        .filter(|o| matches!(o, workload::Op::Drop { .. }))
        .count() as u64;
    st.ext_block_events += r.ext_block_events;
    if r.step_capped {
        st.step_capped_runs += 1;
    }
    st.max_steps_in_a_run = st.max_steps_in_a_run.max(r.steps);
    st.max_ctx_switches_in_a_run = st
        .max_ctx_switches_in_a_run
        .max(r.switches_inner + r.switches_boundary);
    if st.samples.len() < 3 && nt >= 2 && r.switches_inner >= 2 && r.schedule.len() < 400 {
        st.samples.push(serde_json::json!({
            "run_index": index,
            "run_seed": plan.run_seed,
            "policy": format!("{:?}", plan.policy),
            "fault_run": plan.fault_run,
            "shared": plan.workload.shared.iter().map(|s| format!("{:?}/{:?}: {}", s.kind, s.form, s.text)).collect::<Vec<_>>(),
            "threads": plan.workload.threads.iter().map(|t| t.iter().map(|o| format!("{o:?}")).collect::<Vec<_>>()).collect::<Vec<_>>(),
            "faults": plan.workload.faults,
            "schedule_rle": rle(&r.schedule),
            "steps": r.steps,
            "inner_switches": r.switches_inner,
            "trace_digest": format!("{:016x}", r.trace_digest),
        }));
    }
}

fn merge(a: &mut Stats, b: Stats) {
    a.runs += b.runs;
    a.runs_fault_free += b.runs_fault_free;
    a.runs_fault_injecting += b.runs_fault_injecting;
    a.runs_multithreaded += b.runs_multithreaded;
    a.runs_nontrivial += b.runs_nontrivial;
    a.steps_total += b.steps_total;
    a.decisions_total += b.decisions_total;
    a.ops_total += b.ops_total;
    for i in 0..5 {
        a.threads_hist[i] += b.threads_hist[i];
    }
    for (k, v) in b.policy_hist {
        *a.policy_hist.entry(k).or_insert(0) += v;
    }
    for (k, v) in b.site_hits {
        *a.site_hits.entry(k).or_insert(0) += v;
    }
    for (k, v) in b.switch_at {
        *a.switch_at.entry(k).or_insert(0) += v;
    }
    for (k, v) in b.faults_fired_by_seam {
        *a.faults_fired_by_seam.entry(k).or_insert(0) += v;
    }
    a.switches_inner += b.switches_inner;
    a.switches_boundary += b.switches_boundary;
    a.probe_switch_inside_shared_eval += b.probe_switch_inside_shared_eval;
    a.probe_switch_in_evalstep_of_gt64_operand_expr += b.probe_switch_in_evalstep_of_gt64_operand_expr;
    a.probe_switch_between_node_load_and_reduce += b.probe_switch_between_node_load_and_reduce;
    a.probe_switch_at_regex_use += b.probe_switch_at_regex_use;
    a.probe_switch_in_error_path_of_damaged_parse += b.probe_switch_in_error_path_of_damaged_parse;
    a.probe_panic_unwound_through_eval += b.probe_panic_unwound_through_eval;
    a.probe_natural_panic_in_reference += b.probe_natural_panic_in_reference;
    a.probe_error_observations += b.probe_error_observations;
    a.faults_planned += b.faults_planned;
    a.faults_fired += b.faults_fired;
    a.stall_policy_runs += b.stall_policy_runs;
    a.drop_ops += b.drop_ops;
    a.ext_block_events += b.ext_block_events;
    a.step_capped_runs += b.step_capped_runs;
    a.max_steps_in_a_run = a.max_steps_in_a_run.max(b.max_steps_in_a_run);
    a.max_ctx_switches_in_a_run = a.max_ctx_switches_in_a_run.max(b.max_ctx_switches_in_a_run);
    for s in b.samples {
        if a.samples.len() < 4 {
            a.samples.push(s);
        }
    }
    a.ref_digests.extend(b.ref_digests);
    if a.violation.is_none() {
        a.violation = b.violation;
    }
    if a.harness_error.is_none() {
        a.harness_error = b.harness_error;
    }
}

fn silence_panics() {
    std::panic::set_hook(Box::new(|_| {}));
}

fn write_replay(dir: &str, name: &str, rf: &ReplayFile) -> String {
    std::fs::create_dir_all(dir).ok();
    let path = format!("{dir}/{name}");
    let mut f = std::fs::File::create(&path).expect("create replay file");
    f.write_all(serde_json::to_string_pretty(rf).unwrap().as_bytes()).unwrap();
    path
}

fn cmd_native(args: &[String]) -> i32 {
    let seed = arg_u64(args, "--seed", 1);
    let first = arg_u64(args, "--first", 0);
    let count = arg_u64(args, "--count", 1000);
    let workers = arg_u64(args, "--workers", 4) as usize;
    let deadline_s = arg_u64(args, "--deadline-s", 3600);
    let ref_digest_n = arg_u64(args, "--ref-digests", 200);
    let out_path = arg(args, "--out").unwrap_or("/dev/stdout").to_string();
    let replay_dir = arg(args, "--replay-dir").unwrap_or("/verif/replays").to_string();
    let dump = arg(args, "--dump-digests").map(|s| s.to_string());
    let digests_bin = arg(args, "--trace-digests-bin").map(|s| s.to_string());
    let min_budget = arg_u64(args, "--min-budget", 3000);
    let progress = arg(args, "--progress").map(|p| {
        std::fs::OpenOptions::new().create(true).write(true).truncate(true).open(p).expect("progress file")
    });
    let progress = Arc::new(Mutex::new(progress));
    silence_panics();
    let hooks = sched::install_repo_hook();
    // steady-state processes: every process-global lazily initialised by a first parse (the regexes,
    // and whatever else a tree under test adds) is initialised before any simulated thread runs, so
    // that no simulated thread is ever parked inside a `Once` initialiser (allocator seam). First-use
    // races are the business of the fresh-process runs and of engine M.
    if arg_u64(args, "--no-warm", 0) == 0 {
        let h = std::thread::Builder::new().stack_size(run::STACK).spawn(|| warm_up(1)).unwrap();
        let _ = h.join();
    }
    let start = Instant::now();
    let next = Arc::new(AtomicU64::new(first));
    let stop = Arc::new(AtomicBool::new(false));
    let dump_rows: Arc<Mutex<Vec<(u64, u64, u64, u64)>>> = Arc::new(Mutex::new(Vec::new()));
    let mut joins = Vec::new();
    for _ in 0..workers {
        let next = next.clone();
        let stop = stop.clone();
        let dump_rows = dump_rows.clone();
        let want_dump = dump.is_some();
        let replay_dir = replay_dir.clone();
        let progress = progress.clone();
        joins.push(
            std::thread::Builder::new()
                .stack_size(run::STACK)
                .spawn(move || {
                    let mut st = Stats::default();
                    let mut digests: HashSet<u64> = HashSet::new();
                    loop {
                        if stop.load(Ordering::Relaxed) || start.elapsed().as_secs() >= deadline_s {
                            break;
                        }
                        let idx = next.fetch_add(1, Ordering::Relaxed);
                        if idx >= first + count {
                            break;
                        }
                        if let Some(f) = progress.lock().unwrap().as_mut() {
                            // which run is in flight (read by the driver if this process dies of a signal)
                            use std::io::{Seek, SeekFrom};
                            let _ = f.seek(SeekFrom::Start(0));
                            let _ = f.write_all(format!("{idx:<20}").as_bytes());
                        }
                        let plan = plan_run(seed, idx);
                        let cfg = ExecCfg::with_alloc(plan.alloc_every);
                        let out = execute(
                            &plan.workload,
                            Source::Policy { kind: plan.policy, seed: plan.sched_seed },
                            &cfg,
                        );
                        account(&mut st, &plan, &out, &mut digests, idx);
                        let refd = digest_reference(&out.reference);
                        if idx < first + ref_digest_n && !out.violations.iter().any(|v| v.oracle == "O7") {
                            st.ref_digests.push((idx, refd));
                        }
                        if want_dump {
                            let mut od = prng::Fnv::default();
                            for t in &out.obs {
                                for o in t {
                                    match o {
                                        Obs::Done(s) => od.bytes(s.as_bytes()),
                                        Obs::Victim(s) => od.byte(*s),
                                    }
                                    od.byte(0);
                                }
                            }
                            dump_rows.lock().unwrap().push((idx, out.report.trace_digest, od.0, refd));
                        }
                        if let Some(v) = out.violations.first() {
                            if v.oracle == "HARNESS" {
                                st.harness_error = Some(format!("run {idx}: {v:?}"));
                                stop.store(true, Ordering::Relaxed);
                                break;
                            }
                            stop.store(true, Ordering::Relaxed);
                            if v.oracle == "O7" {
                                // threads are stuck; report without minimisation
                                let rf = ReplayFile {
                                    property: "C20".into(),
                                    engine: "native".into(),
                                    batch_seed: seed,
                                    run_index: idx,
                                    run_seed: plan.run_seed,
                                    policy: plan.policy,
                                    fault_run: plan.fault_run,
                                alloc_every: plan.alloc_every,
                                fresh_process: false,
                                bb_gap: 0,
                                age: 0,
                                fresh_warm_full: false,
                                    workload: plan.workload.clone(),
                                    schedule: out.report.schedule.clone(),
                                    violation: v.clone(),
                                    minimised: false,
                                    original_size: size_of(&plan.workload, &out.report.schedule),
                                    final_size: size_of(&plan.workload, &out.report.schedule),
                                    minimiser_executions: 0,
                                    note: "liveness violation: simulated threads stopped making progress".into(),
                                };
                                let p = write_replay(&replay_dir, &format!("C20-native-s{seed}-r{idx}-hang.json"), &rf);
                                st.violation = Some(serde_json::json!({"replay": p, "raw_replay": p, "violation": v}));
                                break;
                            }
                            let orig = size_of(&plan.workload, &out.report.schedule);
                            let raw = ReplayFile {
                                property: "C20".into(),
                                engine: "native".into(),
                                batch_seed: seed,
                                run_index: idx,
                                run_seed: plan.run_seed,
                                policy: plan.policy,
                                fault_run: plan.fault_run,
                                alloc_every: plan.alloc_every,
                                fresh_process: false,
                                bb_gap: 0,
                                age: 0,
                                fresh_warm_full: false,
                                workload: plan.workload.clone(),
                                schedule: out.report.schedule.clone(),
                                violation: v.clone(),
                                minimised: false,
                                original_size: orig,
                                final_size: orig,
                                minimiser_executions: 0,
                                note: "unminimised failing run".into(),
                            };
                            let raw_path = write_replay(&replay_dir, &format!("C20-native-s{seed}-r{idx}-raw.json"), &raw);
                            let mut exec = |w: &Workload, s: Source| ExecResult::from(&execute(w, s, &cfg));
                            let m = minimise(&plan.workload, &out.report.schedule, v, plan.run_seed, plan.policy, &mut exec, min_budget);
                            let rf = ReplayFile {
                                workload: m.workload.clone(),
                                schedule: m.schedule.clone(),
                                violation: m.violation.clone(),
                                minimised: true,
                                final_size: size_of(&m.workload, &m.schedule),
                                minimiser_executions: m.executions,
                                note: "minimised: (threads, ops, faults, context switches) original -> final".into(),
                                ..raw
                            };
                            let min_path = write_replay(&replay_dir, &format!("C20-native-s{seed}-r{idx}-min.json"), &rf);
                            st.violation = Some(serde_json::json!({
                                "replay": min_path, "raw_replay": raw_path, "violation": m.violation,
                                "original_size": orig, "final_size": rf.final_size,
                            }));
                            break;
                        }
                    }
                    (st, digests)
                })
                .unwrap(),
        );
    }
    let mut total = Stats::default();
    let mut all_digests: HashSet<u64> = HashSet::new();
    for j in joins {
        let (st, d) = j.join().expect("worker");
        merge(&mut total, st);
        all_digests.extend(d);
    }
    total.wall_s = start.elapsed().as_secs_f64();
    total.hooks_installed = hooks;
    total.ref_digests.sort_unstable();
    let mut v = serde_json::to_value(&total).unwrap();
    v["distinct_nontrivial_trace_digests"] = serde_json::json!(all_digests.len());
    v["batch_seed"] = serde_json::json!(seed);
    v["first"] = serde_json::json!(first);
    v["count"] = serde_json::json!(count);
    v["workers"] = serde_json::json!(workers);
    std::fs::write(&out_path, serde_json::to_string_pretty(&v).unwrap()).expect("write out");
    if let Some(p) = digests_bin {
        let mut buf = Vec::with_capacity(all_digests.len() * 8);
        let mut ds: Vec<u64> = all_digests.into_iter().collect();
        ds.sort_unstable();
        for d in ds {
            buf.extend_from_slice(&d.to_le_bytes());
        }
        std::fs::write(p, buf).expect("write digests");
    }
    if let Some(p) = dump {
        let mut rows = dump_rows.lock().unwrap().clone();
        rows.sort_unstable();
        let mut s = String::new();
        for (i, t, o, r) in rows {
            s.push_str(&format!("{i} {t:016x} {o:016x} {r:016x}\n"));
        }
        std::fs::write(p, s).expect("write dump");
    }
    if total.harness_error.is_some() {
        eprintln!("HARNESS-ERROR {}", total.harness_error.as_ref().unwrap());
        return 2;
    }
    if let Some(v) = &total.violation {
        println!("VIOLATION-CANDIDATE replay={} raw={}", v["replay"].as_str().unwrap(), v["raw_replay"].as_str().unwrap());
        // leaked threads of a hung run must not keep the process alive
        std::process::exit(1);
    }
    0
}

fn cmd_replay(args: &[String]) -> i32 {
    let path = args.first().expect("replay <file>");
    silence_panics();
    sched::install_repo_hook();
    let text = std::fs::read_to_string(path).expect("read replay file");
    let rf: ReplayFile = serde_json::from_str(&text).expect("parse replay file");
    let cfg = ExecCfg::with_seams(rf.alloc_every, rf.bb_gap, derive(rf.run_seed, 6));
    if rf.bb_gap > 0 && !cfg!(sim_bb) {
        eprintln!("this replay file needs the sim_bb build of the harness (basic-block seams)");
        return 2;
    }
    let (fresh, full) = (rf.fresh_process, rf.fresh_warm_full);
    let (age, age_seed) = (rf.age, rf.batch_seed);
    let _ = std::thread::Builder::new()
        .stack_size(run::STACK)
        .spawn(move || {
            if fresh {
                prepare_fresh(full, age_seed, age);
            } else {
                warm_up(1)
            }
        })
        .unwrap()
        .join();
    let out = execute(&rf.workload, Source::Strict(rf.schedule.clone()), &cfg);
    println!("replay file: {path}");
    println!("recorded violation: {:?}", rf.violation);
    println!("workload: {} threads, {} ops, {} faults; schedule: {}", rf.workload.threads.len(), rf.workload.n_ops(), rf.workload.faults.len(), rle(&rf.schedule));
    for (t, ops) in rf.workload.threads.iter().enumerate() {
        for (i, op) in ops.iter().enumerate() {
            println!("  T{t}.{i}: {op:?}");
        }
    }
    for (j, s) in rf.workload.shared.iter().enumerate() {
        println!("  shared[{j}] {:?}/{:?}: {}", s.kind, s.form, s.text);
    }
    println!("diverged from recorded schedule: {}", out.report.diverged);
    let same = out.violations.iter().find(|v| v.class() == rf.violation.class());
    match same {
        Some(v) => {
            println!("REPRODUCED oracle={} thread={} op={} kind={}", v.oracle, v.thread, v.op, v.op_kind);
            println!("  expected: {}", v.expected);
            println!("  got:      {}", v.got);
            let exact = *v == rf.violation && out.report.schedule == rf.schedule && !out.report.diverged;
            println!("exact-match-with-recording: {exact}");
            if out.violations.iter().any(|v| v.oracle == "O7") {
                std::process::exit(1);
            }
            1
        }
        None => {
            println!("NOT-REPRODUCED ({} other violations)", out.violations.len());
            for v in &out.violations {
                println!("  other: {v:?}");
            }
            0
        }
    }
}

fn cmd_refdigest(args: &[String]) -> i32 {
    let seed = arg_u64(args, "--seed", 1);
    let first = arg_u64(args, "--first", 0);
    let count = arg_u64(args, "--count", 200);
    let reverse = arg_u64(args, "--reverse", 0) != 0;
    let warm = arg_u64(args, "--warm", 0);
    silence_panics();
    sched::install_repo_hook();
    let h = std::thread::Builder::new()
        .stack_size(run::STACK)
        .spawn(move || {
            warm_up(warm);
            let mut rows = Vec::new();
            let mut order: Vec<u64> = (first..first + count).collect();
            if reverse {
                order.reverse();
            }
            for idx in order {
                let plan = plan_run(seed, idx);
                let r = run::reference(&plan.workload);
                rows.push((idx, digest_reference(&r)));
            }
            rows.sort_unstable();
            rows
        })
        .unwrap();
    let rows = h.join().unwrap();
    println!("{}", serde_json::to_string(&rows).unwrap());
    0
}

/// Gives the process a history before the measured work starts: one parse + eval per kind,
/// in forward (1) or backward (2) order of the kinds, or nothing (0). Observations must not
/// depend on it; the driver compares reference digests of processes warmed up differently.
fn warm_up(order: u64) {
    use kinds::{make_handle, Form, Kind, ALL_KINDS};
    if order == 0 {
        return;
    }
    let mut ks: Vec<Kind> = ALL_KINDS.to_vec();
    if order == 2 {
        ks.reverse();
    }
    for k in ks {
        let text = match k {
            Kind::F64 | Kind::F32 => "sin(x)+1*2-log2y",
            Kind::F64b => "dbl(x)<=2**3*pad05(y)",
            Kind::Val | Kind::Val64 => "fact(3) if x>0 else [1,2]",
            Kind::Bool => "!p&&true",
            Kind::Sim | Kind::Sim2 => "sq(x)**2<=3*TEN",
            Kind::Sim3 => "tw(x)&&1<<2",
            Kind::Gen(_) => "x+1",
        };
        for form in [Form::Flat, Form::Deep] {
            let _ = std::panic::catch_unwind(|| {
                if let Ok(h) = make_handle(k, form, text, true) {
                    let _ = h.eval(1, 0, 0);
                    let _ = h.inspect();
                }
            });
        }
    }
}

// ---------------------------------------------------------------------------------------------
// first-use runs: every execution is the first simulated run of a fresh process
// ---------------------------------------------------------------------------------------------

#[derive(serde::Serialize, serde::Deserialize)]
struct ChildJob {
    workload: Workload,
    source: Source,
    alloc_every: u32,
    #[serde(default)]
    bb_gap: u32,
    #[serde(default)]
    bb_seed: u64,
    /// "aged" process: this many reference workloads (single-threaded, deterministic) are executed
    /// before the simulated run, so that counters, caches and tables of the code under test are not
    /// in their initial state
    #[serde(default)]
    age: u32,
    #[serde(default)]
    age_seed: u64,
    /// false: only exmex' own regexes are initialised before the run (first-use runs);
    /// true: one parse + eval of every kind happened before (steady state)
    warm_full: bool,
}

/// child: read a job, warm exmex' own regexes, execute once, write the result
fn cmd_firstuse_exec(args: &[String]) -> i32 {
    let inp = arg(args, "--in").expect("--in");
    let outp = arg(args, "--out").expect("--out");
    silence_panics();
    sched::install_repo_hook();
    let job: ChildJob = serde_json::from_str(&std::fs::read_to_string(inp).expect("read job")).expect("job");
    let h = std::thread::Builder::new()
        .stack_size(run::STACK)
        .spawn(move || {
            prepare_fresh(job.warm_full, job.age_seed, job.age);
            let cfg = ExecCfg::with_seams(job.alloc_every, job.bb_gap, job.bb_seed);
            ExecResult::from(&execute(&job.workload, job.source, &cfg))
        })
        .unwrap();
    let res = h.join().expect("child run");
    let hung = res.violations.iter().any(|v| v.oracle == "O7");
    std::fs::write(outp, serde_json::to_string(&res).unwrap()).expect("write result");
    if hung {
        std::process::exit(0);
    }
    0
}

/// Gives the process a deterministic single-threaded history (see ChildJob::age).
/// What a fresh process does before its one simulated run. Basic blocks executed here count as
/// executed before (first-execution mode of the basic-block seam).
fn prepare_fresh(warm_full: bool, age_seed: u64, age: u32) {
    sched::BB_MARK_ALL.store(true, Ordering::Relaxed);
    kinds::warm_exmex_globals();
    if warm_full {
        warm_up(1);
    }
    age_process(age_seed, age);
    sched::BB_MARK_ALL.store(false, Ordering::Relaxed);
}

fn age_process(seed: u64, age: u32) {
    for j in 0..age as u64 {
        let plan = plan_run(seed ^ 0xA6ED, j);
        let _ = run::reference(&plan.workload);
    }
}

#[allow(clippy::too_many_arguments)]
fn child_exec(dir: &str, tag: u64, w: &Workload, source: Source, alloc_every: u32, warm_full: bool, bb_gap: u32, bb_seed: u64, age: u32, age_seed: u64) -> Result<ExecResult, String> {
    let inp = format!("{dir}/fu_{tag}.in.json");
    let outp = format!("{dir}/fu_{tag}.out.json");
    let _ = std::fs::remove_file(&outp);
    let job = ChildJob { workload: w.clone(), source, alloc_every, bb_gap, bb_seed, warm_full, age, age_seed };
    std::fs::write(&inp, serde_json::to_string(&job).unwrap()).map_err(|e| e.to_string())?;
    let exe = std::env::current_exe().map_err(|e| e.to_string())?;
    let st = std::process::Command::new(exe)
        .args(["firstuse-exec", "--in", &inp, "--out", &outp])
        .stdout(std::process::Stdio::null())
        .stderr(std::process::Stdio::piped())
        .output()
        .map_err(|e| e.to_string())?;
    match std::fs::read_to_string(&outp) {
        Ok(t) => serde_json::from_str(&t).map_err(|e| e.to_string()),
        Err(_) => Err(format!(
            "child died: status {:?} stderr {}",
            st.status,
            String::from_utf8_lossy(&st.stderr).chars().take(600).collect::<String>()
        )),
    }
}

pub struct FreshPlan {
    pub age: u32,
    pub bb_gap: u32,
    pub workload: Workload,
    pub policy: PolicyKind,
    pub sched_seed: u64,
    pub run_seed: u64,
    pub alloc_every: u32,
    pub warm_full: bool,
    pub fault_run: bool,
    /// threshold-contention shape applied (see workload::add_hot_contention)
    pub hot: bool,
}

/// Fresh-process runs come in two flavours (by index parity): first-use runs (no shared
/// expressions, all threads start with the same parses, only exmex' regexes initialised) and
/// steady-state runs of the ordinary workload. Both use the allocator seam.
pub fn plan_fresh(batch_seed: u64, index: u64) -> FreshPlan {
    let run_seed = derive(batch_seed ^ 0xF1F1_F1F1, index);
    let first_use = index % 2 == 0;
    let fault_run = !first_use && index % 6 == 5;
    let workload = if first_use {
        workload::gen_firstuse_workload(derive(run_seed, 1))
    } else {
        gen_workload(derive(run_seed, 1), GenCfg::native(fault_run))
    };
    let mut workload = workload;
    let mut policy = ALL_POLICIES[(derive(run_seed, 2) % ALL_POLICIES.len() as u64) as usize];
    // one fresh run in sixteen: threshold contention on one hot shared instance; half of those under
    // the Stall policy (one thread sits inside a window while the others complete whole evaluations)
    let hot = index % 16 == 7 && !fault_run && workload::add_hot_contention(&mut workload, derive(run_seed, 7));
    if hot && derive(run_seed, 8) % 2 == 0 {
        policy = PolicyKind::Stall;
    }
    let alloc_every = if first_use { 1 } else { [1, 1, 3, 2][(derive(run_seed, 4) % 4) as usize] };
    // basic-block / load-store points only exist in the sim_bb build; there 3 of 4 fresh runs use them
    let bb_gap = if cfg!(sim_bb) { [0u32, 40, 300, 2500][(derive(run_seed, 5) % 4) as usize] } else { 0 };
    // first-execution mode (see sched::bb_point) in 3 of 4 of those: stall probability 1/k
    let novel_k = if bb_gap > 0 { [0u32, 2, 8, 32][(derive(run_seed, 9) % 4) as usize] } else { 0 };
    let bb_gap = sched::bb_pack(bb_gap, novel_k);
    // one steady-state run in four happens in an "aged" process
    let age = if !first_use && index % 8 == 3 { 40 } else { 0 };
    FreshPlan { age, bb_gap, workload, policy, sched_seed: derive(run_seed, 3), run_seed, alloc_every, warm_full: !first_use, fault_run, hot }
}

/// parent: a batch of first-use runs, each in its own child process
fn cmd_firstuse(args: &[String]) -> i32 {
    let seed = arg_u64(args, "--seed", 1);
    let first = arg_u64(args, "--first", 0);
    let count = arg_u64(args, "--count", 100);
    let deadline_s = arg_u64(args, "--deadline-s", 3600);
    let out_path = arg(args, "--out").unwrap_or("/dev/stdout").to_string();
    let replay_dir = arg(args, "--replay-dir").unwrap_or("/verif/replays").to_string();
    let scratch = arg(args, "--scratch").unwrap_or("/verif/target/scratch").to_string();
    let digests_bin = arg(args, "--trace-digests-bin").map(|s| s.to_string());
    let min_budget = arg_u64(args, "--min-budget", 1500);
    std::fs::create_dir_all(&scratch).ok();
    let start = Instant::now();
    let tag = std::process::id() as u64;
    let mut runs = 0u64;
    let mut runs_steady = 0u64;
    let mut runs_bb = 0u64;
    let mut runs_hot = 0u64;
    let mut runs_novel = 0u64;
    let mut novel_points = 0u64;
    let mut novel_stalls = 0u64;
    let mut sw_bb = 0u64;
    let mut faults_planned = 0u64;
    let mut faults_fired = 0u64;
    let mut steps = 0u64;
    let mut decisions = 0u64;
    let mut sw_inner = 0u64;
    let mut sw_alloc = 0u64;
    let mut ext_block = 0u64;
    let mut digests: HashSet<u64> = HashSet::new();
    let mut samples: Vec<serde_json::Value> = Vec::new();
    let mut violation: Option<serde_json::Value> = None;
    let mut harness_error: Option<String> = None;
    for idx in first..first + count {
        if start.elapsed().as_secs() >= deadline_s {
            break;
        }
        let fp = plan_fresh(seed, idx);
        let (w, policy, sched_seed, run_seed) = (fp.workload.clone(), fp.policy, fp.sched_seed, fp.run_seed);
        let (alloc_every, warm_full) = (fp.alloc_every, fp.warm_full);
        let (bb_gap, bb_seed) = (fp.bb_gap, derive(run_seed, 6));
        let age = fp.age;
        if bb_gap > 0 {
            runs_bb += 1;
        }
        if warm_full {
            runs_steady += 1;
        }
        if fp.hot {
            runs_hot += 1;
        }
        if sched::bb_novel_of(bb_gap) != 0 {
            runs_novel += 1;
        }
        faults_planned += w.faults.len() as u64;
        let res = match child_exec(&scratch, tag, &w, Source::Policy { kind: policy, seed: sched_seed }, alloc_every, warm_full, bb_gap, bb_seed, age, seed) {
            Ok(r) => r,
            Err(e) => {
                // a child that dies of a signal is a crash of the code under test or of the harness;
                // report it as a candidate, the driver re-executes it
                violation = Some(serde_json::json!({"crash": true, "run_index": idx, "detail": e}));
                break;
            }
        };
        runs += 1;
        steps += res.report.steps;
        decisions += res.report.decisions;
        sw_inner += res.report.switches_inner;
        novel_points += res.report.site_hits.get(sched::SEAM_NOVEL as usize).copied().unwrap_or(0);
        novel_stalls += res.report.novel_stalls;
        sw_alloc += res.report.switch_at.get(sched::SEAM_ALLOC as usize).copied().unwrap_or(0);
        sw_bb += res.report.switch_at.get(sched::SEAM_BB as usize).copied().unwrap_or(0)
            + res.report.switch_at.get(sched::SEAM_MEM as usize).copied().unwrap_or(0);
        ext_block += res.report.ext_block_events;
        faults_fired += res.report.faults_fired.len() as u64;
        if res.report.switches_inner >= 1 {
            digests.insert(res.report.trace_digest);
        }
        if samples.is_empty() && res.report.schedule.len() < 600 {
            samples.push(serde_json::json!({
                "kind": "first-use run in a fresh process", "run_index": idx, "policy": format!("{policy:?}"),
                "threads": w.threads.iter().map(|t| t.iter().map(|o| format!("{o:?}")).collect::<Vec<_>>()).collect::<Vec<_>>(),
                "schedule_rle": rle(&res.report.schedule), "steps": res.report.steps,
            }));
        }
        if let Some(v) = res.violations.first() {
            if v.oracle == "HARNESS" {
                harness_error = Some(format!("first-use run {idx}: {v:?}"));
                break;
            }
            let orig = size_of(&w, &res.schedule);
            let mk = |w: &Workload, sched: &[u8], v: &run::Violation, minimised: bool, fin, execs, note: &str| ReplayFile {
                property: "C20".into(),
                engine: "native".into(),
                batch_seed: seed,
                run_index: idx,
                run_seed,
                policy,
                fault_run: fp.fault_run,
                alloc_every,
                bb_gap,
                age,
                fresh_process: true,
                fresh_warm_full: warm_full,
                workload: w.clone(),
                schedule: sched.to_vec(),
                violation: v.clone(),
                minimised,
                original_size: orig,
                final_size: fin,
                minimiser_executions: execs,
                note: note.into(),
            };
            let raw_path = write_replay(&replay_dir, &format!("C20-firstuse-s{seed}-r{idx}-raw.json"),
                &mk(&w, &res.schedule, v, false, orig, 0, "unminimised failing first-use run (fresh process)"));
            if v.oracle == "O7" {
                // every candidate would sit out the no-progress timeout; report the run as it is
                violation = Some(serde_json::json!({"replay": raw_path, "raw_replay": raw_path, "violation": v,
                    "original_size": orig, "final_size": orig}));
                break;
            }
            let mut exec = |w: &Workload, s: Source| match child_exec(&scratch, tag, w, s, alloc_every, warm_full, bb_gap, bb_seed, age, seed) {
                Ok(r) => r,
                Err(_) => ExecResult { violations: vec![], schedule: vec![], report: Default::default(), n_victims: 0, ref_digest: 0 },
            };
            let m = minimise(&w, &res.schedule, v, run_seed, policy, &mut exec, min_budget);
            let fin = size_of(&m.workload, &m.schedule);
            let min_path = write_replay(&replay_dir, &format!("C20-firstuse-s{seed}-r{idx}-min.json"),
                &mk(&m.workload, &m.schedule, &m.violation, true, fin, m.executions, "minimised first-use run; every candidate was executed in a fresh process"));
            violation = Some(serde_json::json!({"replay": min_path, "raw_replay": raw_path, "violation": m.violation,
                "original_size": orig, "final_size": fin}));
            break;
        }
    }
    let v = serde_json::json!({
        "firstuse_runs": runs, "fresh_steady_state_runs": runs_steady, "fresh_first_use_runs": runs - runs_steady,
        "fresh_threshold_contention_runs": runs_hot,
        "runs_with_first_execution_mode": runs_novel, "first_execution_points": novel_points, "first_execution_stalls": novel_stalls,
        "runs_with_basic_block_and_load_store_seams": runs_bb, "switches_at_basic_block_or_load_store_seam": sw_bb,
        "faults_planned": faults_planned, "faults_fired": faults_fired, "steps_total": steps, "decisions_total": decisions, "switches_inner": sw_inner,
        "switches_at_allocator_seam": sw_alloc, "ext_block_events": ext_block,
        "distinct_nontrivial_trace_digests": digests.len(), "samples": samples, "violation": violation,
        "harness_error": harness_error, "wall_s": start.elapsed().as_secs_f64(),
    });
    std::fs::write(&out_path, serde_json::to_string_pretty(&v).unwrap()).expect("write out");
    if let Some(p) = digests_bin {
        let mut buf = Vec::new();
        let mut ds: Vec<u64> = digests.into_iter().collect();
        ds.sort_unstable();
        for d in ds {
            buf.extend_from_slice(&d.to_le_bytes());
        }
        std::fs::write(p, buf).expect("write digests");
    }
    if v["harness_error"].is_string() {
        eprintln!("HARNESS-ERROR {}", v["harness_error"]);
        return 2;
    }
    if v["violation"].is_object() {
        println!("VIOLATION-CANDIDATE {}", v["violation"]);
        return 1;
    }
    0
}

fn cmd_show(args: &[String]) -> i32 {
    let seed = arg_u64(args, "--seed", 1);
    let idx = arg_u64(args, "--index", 0);
    let plan = plan_run(seed, idx);
    println!("{}", serde_json::to_string_pretty(&plan.workload).unwrap());
    println!("policy {:?} fault_run {}", plan.policy, plan.fault_run);
    0
}

extern "C" {
    fn personality(persona: u64) -> i32;
    fn sched_getcpu() -> i32;
    fn sched_setaffinity(pid: i32, cpusetsize: usize, mask: *const u64) -> i32;
}

/// Pins this process (and the children and threads it creates later) to the one CPU it is
/// running on. Two reasons: (1) only one simulated thread runs at a time, and a baton hand-over
/// between threads on one CPU is a cheap local context switch (cross-CPU wake-ups cost 10-50x
/// in this VM); (2) determinism: `std::thread::available_parallelism()` (= size of the affinity
/// mask) leaks into the code under test — the regex crate sizes its cache pool by it — and with
/// it the allocation pattern that the allocator seam turns into scheduling points. With the mask
/// fixed to one CPU a run does not depend on where or how the process was started.
fn pin_to_one_cpu() {
    unsafe {
        let cpu = sched_getcpu();
        if cpu < 0 || cpu >= 1024 {
            return;
        }
        let mut mask = [0u64; 16];
        mask[(cpu / 64) as usize] = 1u64 << (cpu % 64);
        let _ = sched_setaffinity(0, std::mem::size_of_val(&mask), mask.as_ptr());
    }
}

/// Address-space layout randomisation leaks into instruction paths (alignment loops in memchr,
/// allocator behaviour, anything that looks at an address) and with it into the number of
/// instrumentation callbacks between two program points, i.e. into where basic-block scheduling
/// points fall. Simulation processes therefore run with ADDR_NO_RANDOMIZE: set the persona and
/// re-execute ourselves once; children inherit it.
fn without_aslr() {
    const ADDR_NO_RANDOMIZE: u64 = 0x0040000;
    unsafe {
        let cur = personality(0xffff_ffff);
        if cur < 0 || (cur as u64 & ADDR_NO_RANDOMIZE) != 0 {
            return;
        }
        if personality(cur as u64 | ADDR_NO_RANDOMIZE) < 0 {
            return;
        }
    }
    use std::os::unix::process::CommandExt;
    if let Ok(exe) = std::env::current_exe() {
        // only returns on failure; then we simply go on with ASLR
        let _ = std::process::Command::new(exe).args(std::env::args_os().skip(1)).exec();
    }
}

fn main() {
    let args: Vec<String> = std::env::args().skip(1).collect();
    if matches!(
        args.first().map(|s| s.as_str()),
        Some("native" | "replay" | "refdigest" | "firstuse" | "firstuse-exec" | "fu-one")
    ) {
        without_aslr();
    }
    sched::bb_init();
    if matches!(
        args.first().map(|s| s.as_str()),
        Some("native" | "replay" | "refdigest" | "firstuse" | "firstuse-exec" | "fu-one")
    ) {
        pin_to_one_cpu();
    }
    let code = match args.first().map(|s| s.as_str()) {
        Some("native") => cmd_native(&args[1..]),
        Some("replay") => cmd_replay(&args[1..]),
        Some("refdigest") => cmd_refdigest(&args[1..]),
        Some("show") => cmd_show(&args[1..]),
        Some("firstuse") => cmd_firstuse(&args[1..]),
        Some("fu-one") => cmd_fu_one(&args[1..]),
        Some("evalone") => cmd_evalone(&args[1..]),
        Some("firstuse-exec") => cmd_firstuse_exec(&args[1..]),
        Some("panics") => cmd_panics(&args[1..]),
        Some("plain") => plain::cmd_plain(&args[1..], &YIELD_EVERY),
        _ => {
            eprintln!("usage: sim native|replay|refdigest|plain|show ...");
            2
        }
    };
    std::process::exit(code);
}

#[allow(dead_code)]
pub fn cmd_panics(args: &[String]) -> i32 {
    let seed = arg_u64(args, "--seed", 1);
    let count = arg_u64(args, "--count", 300);
    silence_panics();
    let mut hist: BTreeMap<String, (u64, String)> = BTreeMap::new();
    for idx in 0..count {
        let plan = plan_run(seed, idx);
        let r = run::reference(&plan.workload);
        for (t, ops) in r.iter().enumerate() {
            for (i, o) in ops.iter().enumerate() {
                if o.starts_with("panic:") {
                    let key: String = o.chars().take(60).collect();
                    let e = hist.entry(key).or_insert((0, format!("{:?}", plan.workload.threads[t][i])));
                    e.0 += 1;
                }
            }
        }
    }
    for (k, (n, ex)) in hist {
        println!("{n:6} {k}   e.g. {}", ex.chars().take(200).collect::<String>());
    }
    0
}

#[allow(dead_code)]
pub fn cmd_fu_one(args: &[String]) -> i32 {
    // debugging aid: execute first-use run `--index` of batch `--seed` in this (fresh) process
    let seed = arg_u64(args, "--seed", 1);
    let idx = arg_u64(args, "--index", 0);
    silence_panics();
    sched::install_repo_hook();
    let fp = plan_fresh(seed, idx);
    let (w, policy, sched_seed) = (fp.workload.clone(), fp.policy, fp.sched_seed);
    let h = std::thread::Builder::new().stack_size(run::STACK).spawn(move || {
        prepare_fresh(fp.warm_full, seed, fp.age);
        let cfg = ExecCfg::with_seams(fp.alloc_every, fp.bb_gap, derive(fp.run_seed, 6));
        sched::TRACE_ON.store(true, Ordering::Relaxed);
        if std::env::var_os("SIM_TRACE_ALL").is_some() {
            sched::BB_LOG_ALL.store(true, Ordering::Relaxed);
        }
        let r = ExecResult::from(&execute(&w, Source::Policy { kind: policy, seed: sched_seed }, &cfg));
        {
            sched::BB_LOG_ALL.store(false, Ordering::Relaxed);
            if let Ok(p) = std::env::var("SIM_TRACE_ALL") {
                for (tid, l) in sched::CB_LOGS.lock().unwrap().iter() {
                    let mut s = String::new();
                    for a in l {
                        s.push_str(&format!("{a:x}\n"));
                    }
                    std::fs::write(format!("{p}.{tid}"), s).unwrap();
                }
            }
        }
        sched::TRACE_ON.store(false, Ordering::Relaxed);
        if let Ok(p) = std::env::var("SIM_TRACE") {
            let t = sched::TRACE.lock().unwrap();
            let mut s = String::new();
            for (tid, site, aux) in t.iter() {
                s.push_str(&format!("{tid} {} {aux}\n", sched::site_name(*site)));
            }
            std::fs::write(p, s).unwrap();
        }
        let r2 = ExecResult::from(&execute(&w, Source::Strict(r.schedule.clone()), &cfg));
        (r, r2)
    }).unwrap();
    let (r, r2) = h.join().unwrap();
    for v in &r.violations {
        println!("VIOL {v:?}");
    }
    println!("violations={} steps={} digest={:016x} | second run in same process (strict): violations={} diverged={} steps={}",
        r.violations.len(), r.report.steps, r.report.trace_digest, r2.violations.len(), r2.report.diverged, r2.report.steps);
    0
}

#[allow(dead_code)]
pub fn cmd_evalone(args: &[String]) -> i32 {
    // debugging aid: parse a text of a kind and evaluate it at a point
    let kind = kinds::kind_from_name(arg(args, "--kind").unwrap_or("F64")).expect("kind");
    let text = arg(args, "--text").expect("--text");
    let point = arg_u64(args, "--point", 0) as u32;
    let form = if arg(args, "--form") == Some("deep") { kinds::Form::Deep } else { kinds::Form::Flat };
    match kinds::make_handle(kind, form, text, true) {
        Ok(h) => println!("{}\neval: {}", h.inspect(), h.eval(point, 0, 0)),
        Err(e) => println!("parse error: {e}"),
    }
    0
}

//! Minimisation of a failing run: fewer threads, fewer operations, fewer
//! faults, fewer context switches — while the same violation class persists.

use crate::prng::derive;
use crate::run::{ExecResult, Violation};
use crate::sched::{PolicyKind, Source, ALL_POLICIES};
use crate::workload::{Op, Workload};
use serde::{Deserialize, Serialize};

#[derive(Clone, Debug, Serialize, Deserialize)]
pub struct ReplayFile {
    pub property: String,
    pub engine: String,
    pub batch_seed: u64,
    pub run_index: u64,
    pub run_seed: u64,
    pub policy: PolicyKind,
    pub fault_run: bool,
    /// allocator scheduling points: 0 off, k = every k-th allocation
    #[serde(default)]
    pub alloc_every: u32,
    /// true: the run must be executed as the first simulated run of a fresh process
    #[serde(default)]
    pub fresh_process: bool,
    /// number of reference workloads executed single-threaded before the run (aged process)
    #[serde(default)]
    pub age: u32,
    /// basic-block / load-store scheduling points (sim_bb build): 0 off, else mean gap
    #[serde(default)]
    pub bb_gap: u32,
    /// fresh-process runs: was the process warmed up with one parse + eval per kind (steady state)?
    #[serde(default)]
    pub fresh_warm_full: bool,
    pub workload: Workload,
    pub schedule: Vec<u8>,
    pub violation: Violation,
    pub minimised: bool,
    pub original_size: (usize, usize, usize, usize),
    pub final_size: (usize, usize, usize, usize),
    pub minimiser_executions: u64,
    pub note: String,
}

pub fn switches(s: &[u8]) -> usize {
    s.windows(2).filter(|w| w[0] != w[1]).count()
}

fn has_class(out: &ExecResult, class: &(String, String)) -> Option<Violation> {
    out.violations.iter().find(|v| &v.class() == class).cloned()
}

/// How the minimiser executes a candidate: in this process (steady state) or in a fresh child
/// process (first-use runs, whose subject is state that exists once per process).
pub type Exec<'a> = &'a mut dyn FnMut(&Workload, Source) -> ExecResult;

struct Ctx<'a> {
    class: (String, String),
    exec: Exec<'a>,
    execs: u64,
    budget: u64,
    seed: u64,
    policy: PolicyKind,
}

impl Ctx<'_> {
    /// Does `w` still fail with the same class? Tries the (remapped) old schedule
    /// leniently first, then a few seeded schedules.
    fn still_fails(&mut self, w: &Workload, hint: &[u8], n_seeds: u64) -> Option<(Vec<u8>, Violation)> {
        if w.threads.is_empty() || w.threads.iter().all(|t| t.is_empty()) {
            return None;
        }
        let mut sources: Vec<Source> = vec![Source::Lenient(hint.to_vec())];
        for k in 0..n_seeds {
            let pol = if k == 0 { self.policy } else { ALL_POLICIES[(k as usize) % ALL_POLICIES.len()] };
            sources.push(Source::Policy { kind: pol, seed: derive(self.seed, 7000 + k) });
        }
        for s in sources {
            if self.execs >= self.budget {
                return None;
            }
            self.execs += 1;
            let out = (self.exec)(w, s);
            if let Some(v) = has_class(&out, &self.class) {
                return Some((out.schedule.clone(), v));
            }
        }
        None
    }
}

fn remove_thread(w: &Workload, t: usize, sched: &[u8]) -> (Workload, Vec<u8>) {
    let mut w2 = w.clone();
    w2.threads.remove(t);
    w2.faults.retain(|f| f.tid != t);
    for f in w2.faults.iter_mut() {
        if f.tid > t {
            f.tid -= 1;
        }
    }
    let s2 = sched
        .iter()
        .filter(|x| **x as usize != t)
        .map(|x| if *x as usize > t { *x - 1 } else { *x })
        .collect();
    (w2, s2)
}

fn remove_op(w: &Workload, t: usize, i: usize) -> Workload {
    let mut w2 = w.clone();
    w2.threads[t].remove(i);
    w2.faults.retain(|f| !(f.tid == t && f.op as usize == i));
    for f in w2.faults.iter_mut() {
        if f.tid == t && f.op as usize > i {
            f.op -= 1;
        }
    }
    w2
}

pub fn size_of(w: &Workload, sched: &[u8]) -> (usize, usize, usize, usize) {
    (w.threads.len(), w.n_ops(), w.faults.len(), switches(sched))
}

pub struct Minimised {
    pub workload: Workload,
    pub schedule: Vec<u8>,
    pub violation: Violation,
    pub executions: u64,
}

pub fn minimise(
    w0: &Workload,
    sched0: &[u8],
    v0: &Violation,
    seed: u64,
    policy: PolicyKind,
    exec: Exec<'_>,
    budget: u64,
) -> Minimised {
    let mut ctx = Ctx { class: v0.class(), exec, execs: 0, budget, seed, policy };
    let mut w = w0.clone();
    let mut sched = sched0.to_vec();
    let mut viol = v0.clone();

    // 1. drop whole threads
    let mut t = w.threads.len();
    while t > 0 {
        t -= 1;
        if w.threads.len() <= 1 {
            break;
        }
        let (w2, s2) = remove_thread(&w, t, &sched);
        if let Some((s3, v)) = ctx.still_fails(&w2, &s2, 12) {
            w = w2;
            sched = s3;
            viol = v;
        }
    }
    // 2. drop operations (two passes, back to front)
    for _pass in 0..2 {
        let mut changed = false;
        for t in (0..w.threads.len()).rev() {
            let mut i = w.threads[t].len();
            while i > 0 {
                i -= 1;
                let w2 = remove_op(&w, t, i);
                if let Some((s3, v)) = ctx.still_fails(&w2, &sched, 8) {
                    w = w2;
                    sched = s3;
                    viol = v;
                    changed = true;
                }
            }
        }
        // threads that became empty
        let mut t = w.threads.len();
        while t > 0 {
            t -= 1;
            if w.threads[t].is_empty() && w.threads.len() > 1 {
                let (w2, s2) = remove_thread(&w, t, &sched);
                if let Some((s3, v)) = ctx.still_fails(&w2, &s2, 8) {
                    w = w2;
                    sched = s3;
                    viol = v;
                    changed = true;
                }
            }
        }
        if !changed {
            break;
        }
    }
    // 3. drop faults
    let mut k = w.faults.len();
    while k > 0 {
        k -= 1;
        let mut w2 = w.clone();
        w2.faults.remove(k);
        if let Some((s3, v)) = ctx.still_fails(&w2, &sched, 8) {
            w = w2;
            sched = s3;
            viol = v;
        }
    }
    // 4. neutralise shared expressions nobody uses any more; simplify Parse ops is left alone
    for j in 0..w.shared.len() {
        let used = w.threads.iter().flatten().any(|op| op.shared_index() == Some(j));
        if !used && w.shared[j].text != "1" {
            let mut w2 = w.clone();
            w2.shared[j].text = "1".into();
            w2.shared[j].n_operands = 1;
            if let Some((s3, v)) = ctx.still_fails(&w2, &sched, 4) {
                w = w2;
                sched = s3;
                viol = v;
            }
        }
    }
    // 5. simplify evaluation parameters (mode 0, delta 0) where that keeps the failure
    for t in 0..w.threads.len() {
        for i in 0..w.threads[t].len() {
            if let Op::Eval { j, point, mode, delta } = w.threads[t][i].clone() {
                if mode != 0 || delta != 0 {
                    let mut w2 = w.clone();
                    w2.threads[t][i] = Op::Eval { j, point, mode: 0, delta: 0 };
                    if let Some((s3, v)) = ctx.still_fails(&w2, &sched, 4) {
                        w = w2;
                        sched = s3;
                        viol = v;
                    }
                }
            }
        }
    }
    // 5b. shorter texts: cut shared expressions and parsed texts at top-level operator positions
    // (a prefix that still parses), trying the shortest candidates first
    fn cut_points(text: &str) -> Vec<usize> {
        let mut depth = 0i32;
        let mut pts = Vec::new();
        let b = text.as_bytes();
        for (i, c) in text.char_indices() {
            match c {
                '(' | '{' | '[' => depth += 1,
                ')' | '}' | ']' => depth -= 1,
                _ => {}
            }
            if depth == 0 && i > 0 && i + 1 < b.len() && "+-*/%^<>=&|".contains(c) {
                let prev = b[i - 1] as char;
                if prev.is_alphanumeric() || prev == ')' || prev == '}' || prev == ' ' || prev == '.' {
                    pts.push(i);
                }
            }
        }
        pts
    }
    for j in 0..w.shared.len() {
        let mut progress = true;
        while progress && ctx.execs < ctx.budget {
            progress = false;
            let text = w.shared[j].text.clone();
            let pts = cut_points(&text);
            // a handful of candidates, shortest first
            let mut tried = 0;
            for p in pts {
                if tried >= 6 {
                    break;
                }
                let cand = text[..p].trim_end().to_string();
                if cand.is_empty() || cand.len() + 4 > text.len() {
                    continue;
                }
                let s = &w.shared[j];
                let (kind, form, compile) = (s.kind, s.form, s.compile);
                let parses = std::panic::catch_unwind(|| crate::kinds::make_handle(kind, form, &cand, compile).is_ok())
                    .unwrap_or(false);
                if !parses {
                    continue;
                }
                tried += 1;
                let mut w2 = w.clone();
                w2.shared[j].text = cand;
                if let Some((s3, v)) = ctx.still_fails(&w2, &sched, 3) {
                    w = w2;
                    sched = s3;
                    viol = v;
                    progress = true;
                    break;
                }
            }
        }
    }
    // 6. fewer context switches: remove switch points one at a time (from the back)
    loop {
        let mut improved = false;
        let mut k = sched.len();
        while k > 1 {
            k -= 1;
            if ctx.execs >= ctx.budget {
                break;
            }
            if sched[k] != sched[k - 1] {
                // pretend the thread that ran before keeps running for this decision and the
                // rest of the old segment
                let mut cand = sched.clone();
                let prev = sched[k - 1];
                let old = sched[k];
                let mut m = k;
                while m < cand.len() && cand[m] == old {
                    cand[m] = prev;
                    m += 1;
                }
                ctx.execs += 1;
                let out = (ctx.exec)(&w, Source::Lenient(cand));
                if let Some(v) = has_class(&out, &ctx.class) {
                    if switches(&out.schedule) < switches(&sched) {
                        sched = out.schedule.clone();
                        viol = v;
                        improved = true;
                        k = k.min(sched.len());
                    }
                }
            }
        }
        if !improved || ctx.execs >= ctx.budget {
            break;
        }
    }
    Minimised { workload: w, schedule: sched, violation: viol, executions: ctx.execs }
}

//! Engine T: compile-time Send + Sync obligations of C20, clause (a).
//! Each `ss::<X>()` is one obligation discharged by rustc for *all* uses of X.
//! The generic function states the for-all-types form: whenever the data type,
//! the operator factory and the literal matcher are Send + Sync, so are the
//! flat and deep expression, the operator and the error type.
#![allow(dead_code)]
use exmex::{
    literal_matcher_from_pattern, BinOp, DataType, DeepEx, ExError, FlatEx, FlatExVal,
    FloatOpsFactory, MakeOperators, MatchLiteral, NumberMatcher, Operator, Val, ValMatcher,
    ValOpsFactory,
};
use std::fmt::Debug;
use std::str::FromStr;

fn ss<T: Send + Sync>() -> u32 {
    1
}
// shareable by reference from many threads, movable into a thread, and usable behind Arc
fn shareable<T: Send + Sync + 'static>() -> u32 {
    fn spawnable<F: FnOnce() + Send + 'static>(_f: F) {}
    fn with<T: Send + Sync + 'static>(x: std::sync::Arc<T>) {
        spawnable(move || {
            let _y = &*x;
        });
    }
    let _ = with::<T>;
    1
}

#[derive(Clone, Debug)]
struct BoolOps;
impl MakeOperators<bool> for BoolOps {
    fn make<'a>() -> Vec<Operator<'a, bool>> {
        vec![Operator::make_bin(
            "&&",
            BinOp { apply: |a, b| a && b, prio: 1, is_commutative: true },
        )]
    }
}
literal_matcher_from_pattern!(BoolMatcher, "^(true|false)");

fn generic<T, OF, LM>() -> u32
where
    T: DataType + Send + Sync + 'static,
    <T as FromStr>::Err: Debug,
    OF: MakeOperators<T> + Send + Sync + 'static,
    LM: MatchLiteral + Send + Sync + 'static,
{
    ss::<FlatEx<T, OF, LM>>()
        + ss::<DeepEx<'static, T, OF, LM>>()
        + ss::<Operator<'static, T>>()
        + ss::<BinOp<T>>()
        + shareable::<FlatEx<T, OF, LM>>()
        + shareable::<DeepEx<'static, T, OF, LM>>()
}

fn main() {
    let n = ss::<FlatEx<f64>>()
        + ss::<FlatEx<f32>>()
        + ss::<DeepEx<'static, f64>>()
        + ss::<DeepEx<'static, f32>>()
        + ss::<FlatExVal<i32, f64>>()
        + ss::<Val<i32, f64>>()
        + ss::<DeepEx<'static, Val<i32, f64>, ValOpsFactory<i32, f64>, ValMatcher>>()
        + ss::<FlatEx<bool, BoolOps, BoolMatcher>>()
        + ss::<DeepEx<'static, bool, BoolOps, BoolMatcher>>()
        + ss::<Operator<'static, f64>>()
        + ss::<ExError>()
        + ss::<exmex::ExResult<FlatEx<f64>>>()
        + ss::<FloatOpsFactory<f64>>()
        + ss::<NumberMatcher>()
        + ss::<ValMatcher>()
        + shareable::<FlatEx<f64>>()
        + shareable::<DeepEx<'static, f64>>()
        + shareable::<FlatExVal<i32, f64>>()
        + generic::<f64, FloatOpsFactory<f64>, NumberMatcher>()
        + generic::<Val<i32, f64>, ValOpsFactory<i32, f64>, ValMatcher>()
        + generic::<bool, BoolOps, BoolMatcher>()
        + generic::<String, StrOps, NumberMatcher>();
    println!("SENDSYNC-OBLIGATIONS {n}");
}

#[derive(Clone, Debug)]
struct StrOps;
impl MakeOperators<String> for StrOps {
    fn make<'a>() -> Vec<Operator<'a, String>> {
        vec![Operator::make_bin(
            "+",
            BinOp { apply: |a, b| a + &b, prio: 1, is_commutative: false },
        )]
    }
}

#!/bin/bash
# Regression of the sensitivity claims: every seeded change must be caught (exit 1) by the engines
# named for it, every control must stay silent (exit 0). Usage: tools/run_seeded.sh [out-file]
OUT=${1:-/verif/seeded/RESULTS.txt}
cd /verif
: > "$OUT"
run() { # id engines expected
  local id=$1 eng=$2 want=$3
  tools/try_patch.sh seeded/$id/patch.diff $eng > /tmp/seeded_$id.$eng.log 2>&1
  local rc=$?
  local first=$(grep -m1 -B1 "^VIOLATION" /tmp/seeded_$id.$eng.log | head -1 | cut -c1-160)
  local st=OK; [ "$rc" != "$want" ] && st=UNEXPECTED
  echo "$st $id engines=$eng exit=$rc expected=$want | $first" | tee -a "$OUT"
}
for i in 1 2 3 4 5 6 7 9 10 11 13 14 16 17 18 19 20 23 24 28; do run agent-$i N 1; done
run own-deadlock-lock-order N 1
run own-not-send-sync T,N 1
for c in own-control-lazylock own-control-global-mutex control-c1 control-c2 control-c3 control-c4 control-c5 control-c6; do run $c T,N 0; done
for i in 3 8 12 15 26; do run agent-$i M 1; done
run own-racy-regex-init M 1
for c in own-control-lazylock control-c1 control-c2 control-c3 control-c4 control-c5 control-c6; do run $c M 0; done
# known misses of the quick tier (expected silent; a catch here is good news and shows as UNEXPECTED)
for i in 21 22 25 27 29; do run agent-$i N 0; done

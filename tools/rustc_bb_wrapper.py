#!/usr/bin/env python3
"""RUSTC_WRAPPER for the sim_bb build: drops the SanitizerCoverage flags for crates whose
instruction paths are not a function of their inputs alone. The regex engine keeps its lazy-DFA
states in a std HashMap with a per-thread random SipHash key (probe lengths differ from process to
process), so basic-block counts inside it cannot be reproduced. Those crates are not generic over
anything of exmex, so leaving them uninstrumented loses no exmex code."""
import os, sys
EXCLUDE = {"regex", "regex_automata", "regex_syntax", "aho_corasick", "memchr"}
args = sys.argv[1:]
name = None
for i, a in enumerate(args):
    if a == "--crate-name" and i + 1 < len(args):
        name = args[i + 1]
if name in EXCLUDE:
    out = []
    skip = False
    for a in args:
        if a.startswith("-Cpasses=sancov") or a.startswith("-Cllvm-args=-sanitizer-coverage"):
            continue
        out.append(a)
    args = out
os.execvp(args[0], args)

#!/bin/bash
# usage: tools/try_patch.sh <patch.diff> [engines, default T,N] [tier]
# Applies a seeded change to /repo, runs the C20 check, reverts /repo. Evidence written by this run is
# NOT to be committed (it describes a mutated tree).
set -u
P=$(readlink -f "$1"); ENG=${2:-T,N}; TIER=${3:-quick}
cd /repo || exit 2
if ! git diff --quiet; then echo "/repo has local changes; refusing"; exit 2; fi
git apply "$P" || { echo "patch does not apply"; exit 2; }
cd /verif
cp evidence/C20.json /tmp/.evidence_backup.json 2>/dev/null
VERIF_ENGINES=$ENG ./check C20 --tier $TIER; RC=$?
cp evidence/C20.json /tmp/.evidence_mutated.json 2>/dev/null
cp /tmp/.evidence_backup.json evidence/C20.json 2>/dev/null
git -C /repo checkout -- . ; git -C /repo clean -fdq src
echo "try_patch: exit=$RC"
exit $RC
